"""FLW engine, part 2 — tier write-effects (C14) and representation-invariant writers (C08).

FLW-4  tier writes are guarded by a modifier of that tier; boundary-only operations do not edit segments
FLW-5  syllable emptiness: removal ⇒ emptiness check pairing; no possibly-empty syllable is put into a word
FLW-6  tone literals are capped at their origin
FLW-7  an empty place is absent: raw Place writes assign None only; setters normalise
"""
import hirq
from core import AnchorMissing, RuleResult, fn_loc, short_loc
from engine_flw import track_value, guard_switches, only_reachable_via, find_calls
from facts import callee_path

SYL = "asca::syll::Syllable"
SUPRA = "asca::parser::SupraSegs"


def resolve_place_fields(body, place, depth=0):
    """Field names along a place, looking through single-definition reference locals:
    [(adt, field name)...]"""
    out = []
    if depth < 6:
        d = _single_def(body, place["l"])
        if d is not None and d.get("k") in ("ref", "use"):
            src = d["pl"] if d["k"] == "ref" else (d["op"]["pl"] if d["op"].get("k") in ("copy", "move") else None)
            if src is not None:
                out += resolve_place_fields(body, src, depth + 1)
    for pr in place["p"]:
        if isinstance(pr, dict) and "f" in pr:
            out.append((pr.get("of"), pr.get("n")))
    return out


_def_cache = {}


def _single_def(body, l):
    key = (id(body), l)
    if key in _def_cache:
        return _def_cache[key]
    defs = []
    for blk in body.blocks:
        for s in blk["s"]:
            if s["k"] == "assign" and s["lhs"]["l"] == l and not s["lhs"]["p"]:
                defs.append(s["rv"])
        t = blk["t"]
        if t["k"] == "call" and t["dest"]["l"] == l and not t["dest"]["p"]:
            defs.append({"k": "call", "t": t})
    r = defs[0] if len(defs) == 1 else None
    _def_cache[key] = r
    return r


def option_switches(body, adt, field):
    """[(switch block, some_succ, none_succ)] for switches on the discriminant of an Option stored under adt.field"""
    out = []
    for i, blk in enumerate(body.blocks):
        t = blk["t"]
        if t["k"] != "switch" or t["op"].get("k") not in ("copy", "move") or t["op"]["pl"]["p"]:
            continue
        d = _single_def(body, t["op"]["pl"]["l"])
        if d is None or d.get("k") != "discr" or d.get("adt") != "core::option::Option":
            continue
        fields = resolve_place_fields(body, d["pl"])
        if (adt, field) not in fields:
            continue
        names = dict((dv, n) for dv, n in d.get("variants", []))
        m = {}
        for v, tgt in t["vals"]:
            m[names.get(v, str(v))] = tgt
        rest = [n for n in names.values() if n not in m]
        if len(rest) == 1:
            m[rest[0]] = t["otherwise"]
        if "Some" in m and "None" in m:
            out.append((i, m["Some"], m["None"]))
    return out


def guarded_by_some(body, blk, switches):
    cfg = body.cfg
    for sb, some, none in switches:
        if cfg.dominates(sb, blk) and only_reachable_via(cfg, sb, none, blk):
            return True
    return False


def field_writes(body, adt, names):
    """[(field, block, loc, base_is_deref, stmt)] assignments whose lhs ends in adt.field"""
    out = []
    for bi, blk in enumerate(body.blocks):
        if blk.get("cleanup"):
            continue
        for s in blk["s"]:
            if s["k"] != "assign":
                continue
            ps = s["lhs"]["p"]
            if not ps:
                continue
            last = ps[-1]
            if isinstance(last, dict) and last.get("of") == adt and last.get("n") in names:
                deref = any(p == "*" for p in ps[:-1])
                out.append((last["n"], bi, short_loc(s["loc"]), deref, s))
    return out


DEQUE = "alloc::collections::vec_deque::VecDeque::"
SEG_EDIT = ("insert", "remove", "push_back", "push_front", "pop_back", "pop_front", "clear", "truncate", "drain", "append", "swap",
            "retain", "split_off", "extend", "rotate_left", "rotate_right", "swap_remove_back", "swap_remove_front", "resize", "make_contiguous")


def deque_edits(body):
    out = []
    for i, t in body.calls():
        cp = callee_path(t) or ""
        if cp.startswith(DEQUE) and cp[len(DEQUE):] in SEG_EDIT:
            out.append((cp[len(DEQUE):], i, t))
    return out


def flw4(ctx):
    r = RuleResult("FLW-4", "stress/tone/length are written only under a modifier of that tier; segment-level code cannot reach the syllable; boundary-only merges do not edit segments", floor=36)
    lib = ctx.lib
    # ---- 4a
    sa = ctx.fn(lib, "asca::seg::Segment::apply_seg_mods")
    bad = [t for t in sa.param_tys if "syll::Syllable" in t or "word::Word" in t]
    r.inst("Segment::apply_seg_mods cannot reach a syllable or word by type (%d params)" % len(sa.param_tys), fn_loc(sa), "ok" if not bad else "report")
    if bad:
        r.report("FLW-4a|sig", fn_loc(sa), sa.path, "segment-level modifier application receives %s" % bad)
    # ---- 4b
    asm = ctx.fn(lib, "asca::syll::Syllable::apply_syll_mods")
    sw = {"stress": option_switches(asm, SUPRA, "stress"), "tone": option_switches(asm, SUPRA, "tone")}
    ws = field_writes(asm, SYL, ("stress", "tone", "segments"))
    for f, bi, loc, deref, s in ws:
        if f == "segments":
            r.inst("apply_syll_mods writes self.segments", loc, "report")
            r.report("FLW-4b|segments-write", loc, asm.path, "apply_syll_mods writes the segment tier")
            continue
        ok = guarded_by_some(asm, bi, sw[f])
        r.inst("apply_syll_mods: write of self.%s is reachable only on a Some edge of mods.%s" % (f, f), loc, "ok" if ok else "report")
        if not ok:
            ordinal = [x[2] for x in ws if x[0] == f].index(loc)
            r.report("FLW-4b|%s|#%d" % (f, ordinal), loc, asm.path,
                     "self.%s is written on a path where the rule gave no %s modifier: a %s-less matrix changes the syllable's %s" % (f, f, f, f))
    ed = deque_edits(asm)
    mut_self_calls = [(i, t) for i, t in asm.calls() if (callee_path(t) or "").startswith("asca::") and any(
        a.get("k") in ("copy", "move") and asm.local_ty(a["pl"]["l"]).startswith("&mut asca::syll::Syllable") for a in t["args"])]
    r.inst("apply_syll_mods edits no segment and passes &mut self to no one", fn_loc(asm), "ok" if not ed and not mut_self_calls else "report")
    if ed or mut_self_calls:
        r.report("FLW-4b|effects", fn_loc(asm), asm.path, "apply_syll_mods has effects beyond stress/tone: %s" % ([e[0] for e in ed] + [callee_path(t) for _, t in mut_self_calls]))
    # ---- 4c
    sup = ctx.fn(lib, "asca::syll::Syllable::apply_supras")
    lsw = option_switches(sup, SUPRA, "length")
    eds = deque_edits(sup)
    for name, bi, t in eds:
        ok = guarded_by_some(sup, bi, lsw)
        r.inst("apply_supras: segments.%s is reachable only on a Some edge of mods.length" % name, short_loc(t["loc"]), "ok" if ok else "report")
        if not ok:
            ordinal = [x[1] for x in eds].index(bi)
            r.report("FLW-4c|%s|#%d" % (name, ordinal), short_loc(t["loc"]), sup.path,
                     "copies of a segment are inserted/removed on a path without a length modifier")
    ws = field_writes(sup, SYL, ("stress", "tone"))
    r.inst("apply_supras writes stress/tone only through apply_syll_mods", fn_loc(sup), "ok" if not ws else "report")
    for f, bi, loc, deref, s in ws:
        r.report("FLW-4c|direct-%s" % f, loc, sup.path, "apply_supras writes self.%s directly" % f)
    # ---- 4d
    ssm = ctx.fn(lib, "asca::syll::Syllable::apply_seg_mods")
    eds = deque_edits(ssm)
    ws = field_writes(ssm, SYL, ("stress", "tone", "segments"))
    callees = sorted({callee_path(t) for _, t in ssm.calls() if (callee_path(t) or "").startswith("asca::")})
    allowed = {"asca::syll::Syllable::get_seg_length_at", "asca::seg::Segment::apply_seg_mods", "asca::syll::Syllable::apply_supras"}
    extra = [c for c in callees if c not in allowed]
    ok = not eds and not ws and not extra
    r.inst("Syllable::apply_seg_mods only maps Segment::apply_seg_mods over the run and delegates to apply_supras", fn_loc(ssm), "ok" if ok else "report")
    if not ok:
        r.report("FLW-4d|effects", fn_loc(ssm), ssm.path, "Syllable::apply_seg_mods has other effects: edits %s, field writes %s, callees %s" % ([e[0] for e in eds], [w[0] for w in ws], extra))
    # ---- 4e: direct stress/tone writes elsewhere in the interpreter
    interp = [b for b in lib.bodies if not b.in_test_mod() and b.path.startswith(("asca::subrule::", "asca::rule::", "asca::syll::", "asca::seg::"))
              and b.path != asm.path]
    n_sites = 0
    for b in interp:
        ws = field_writes(b, SYL, ("stress", "tone"))
        if not ws:
            continue
        cfg = b.cfg
        removals = [i for i, t in b.calls() if (callee_path(t) or "") in ("alloc::vec::Vec::remove", "asca::word::Word::remove_syll")
                    and ("syll::Syllable" in (t["callee"].get("inst") or "") or (callee_path(t) or "").endswith("remove_syll"))]
        err_exits = [i for i, t in b.calls() if (callee_path(t) or "").endswith("FromResidual<core::result::Result<core::convert::Infallible, E>>>::from_residual")]
        per_field = {}
        for f, bi, loc, deref, s in ws:
            n_sites += 1
            ordinal = per_field.get(f, 0)
            per_field[f] = ordinal + 1
            if not deref:
                # a syllable under construction (local value): must copy the field of an existing syllable
                rv = s["rv"]
                src_ok = rv["k"] == "use" and rv["op"].get("k") in ("copy", "move") and any(
                    isinstance(p, dict) and p.get("of") == SYL and p.get("n") == f for p in rv["op"]["pl"]["p"])
                if not src_ok and rv["k"] == "use" and rv["op"].get("k") in ("copy", "move") and not rv["op"]["pl"]["p"]:
                    d = _single_def(b, rv["op"]["pl"]["l"])
                    if d is not None and d.get("k") == "use" and d["op"].get("k") in ("copy", "move"):
                        src_ok = any(isinstance(p, dict) and p.get("of") == SYL and p.get("n") == f for p in d["op"]["pl"]["p"])
                r.inst("%s: new syllable's %s copied from the syllable being split" % (b.path.rsplit("::", 1)[-1], f), loc,
                       "ok" if src_ok else "report")
                if not src_ok:
                    r.report("FLW-4e|%s|fresh-%s|#%d" % (b.path, f, ordinal), loc, b.path,
                             "a new syllable's %s is set to something other than the %s of the syllable it is split from" % (f, f))
            else:
                # a syllable inside the word: only as part of a merge (the other syllable is removed on every normal path)
                ok = bool(removals) and cfg.must_pass_through(bi, set(removals) | set(err_exits), cfg.exits)
                r.inst("%s: %s of a syllable in the word is rewritten only while merging it with a removed neighbour" % (b.path.rsplit("::", 1)[-1], f),
                       loc, "ok" if ok else "report")
                if not ok:
                    r.report("FLW-4e|%s|merge-%s|#%d" % (b.path, f, ordinal), loc, b.path,
                             "%s of a syllable inside the word is written outside apply_syll_mods and not as part of a syllable merge: a segmental rule path can change prosody" % f)
    # ---- 4f: merging two syllables (boundary deletion) must not add or drop segments
    for b in interp:
        cfg = b.cfg
        for bi, blk in enumerate(b.blocks):
            t = blk["t"]
            if t["k"] != "switch" or t["op"].get("k") not in ("copy", "move") or t["op"]["pl"]["p"]:
                continue
            d = _single_def(b, t["op"]["pl"]["l"])
            if d is None or d.get("k") != "discr" or d.get("adt") != "asca::subrule::MatchElement":
                continue
            names = dict((dv, n) for dv, n in d.get("variants", []))
            tgt = [tg for v, tg in t["vals"] if names.get(v) == "SyllBound"]
            if not tgt and len([n for n in names.values() if n not in [names.get(v) for v, _ in t["vals"]]]) == 1:
                rest = [n for n in names.values() if n not in [names.get(v) for v, _ in t["vals"]]]
                if rest == ["SyllBound"]:
                    tgt = [t["otherwise"]]
            if not tgt:
                continue
            region = {x for x in cfg.reach if cfg.dominates(tgt[0], x)}
            eds = [(n, i, tt) for n, i, tt in deque_edits(b) if i in region]
            if not any(n == "append" for n, _, _ in eds):
                continue        # not a merging arm
            bad = [(n, short_loc(tt["loc"])) for n, i, tt in eds if n not in ("append",)]
            r.inst("%s: boundary-deletion arm merges by `append` only (segment tier untouched)" % b.path.rsplit("::", 1)[-1], short_loc(b.blocks[tgt[0]]["t"]["loc"]),
                   "ok" if not bad else "report")
            if bad:
                k = [x for x in deque_edits(b) if x[1] in region and x[0] != "append"][0][0]
                r.report("FLW-4f|%s|%s" % (b.path, k), bad[0][1], b.path,
                         "the syllable-boundary deletion arm also edits segments (%s): a boundary-only rule can add or drop a segment" % bad)
    r.analysed = {"interpreter_stress_tone_sites": n_sites}
    return r


# ====================================================================== FLW-5

SEGS_T = "alloc::collections::vec_deque::VecDeque<asca::seg::Segment>"
E, N, M = "Empty", "NonEmpty", "Maybe"
GROW = ("push_back", "push_front", "insert")
SHRINK = ("pop_back", "pop_front", "remove", "truncate", "drain", "split_off", "retain", "swap_remove_back", "swap_remove_front")


def _join(a, b):
    if a is None:
        return b
    if b is None:
        return a
    return a if a == b else M


def _is_tracked_ty(t):
    return (t == SYL or t == SEGS_T or (("asca::syll::Syllable" in t) and not t.startswith("&") and "Vec<asca::syll::Syllable>" not in t
                                         and "[asca::syll::Syllable]" not in t and "VarKind" not in t and "HashMap" not in t))


class SyllState:
    """Forward may/must-emptiness analysis of by-value Syllable (and detached VecDeque<Segment>) locals of one body."""

    def __init__(self, body):
        self.b = body
        self.cfg = body.cfg
        self.tracked = {i for i, l in enumerate(body.locals) if _is_tracked_ty(l["ty"])}
        self.sinks = []       # (kind, block, loc, local, state, via)
        self.in_state = {}
        self.run()

    # -- reference resolution: which tracked local does a reference local point into?
    def ref_target(self, l, depth=0):
        """-> (tracked local, 'syl'|'segs') or None (in-word / unknown)"""
        if depth > 8:
            return None
        d = _single_def(self.b, l)
        if d is None:
            return None
        if d.get("k") == "ref":
            pl = d["pl"]
            if pl["l"] in self.tracked and "*" not in pl["p"]:
                segs = any(isinstance(p, dict) and p.get("n") == "segments" and p.get("of") == SYL for p in pl["p"])
                if self.b.local_ty(pl["l"]) == SEGS_T:
                    segs = True
                return (pl["l"], "segs" if segs else "syl")
            if pl["p"] and pl["p"][0] == "*":
                t = self.ref_target(pl["l"], depth + 1)
                if t is not None:
                    segs = t[1] == "segs" or any(isinstance(p, dict) and p.get("n") == "segments" and p.get("of") == SYL for p in pl["p"])
                    return (t[0], "segs" if segs else "syl")
            return None
        if d.get("k") == "use" and d["op"].get("k") in ("copy", "move") and not d["op"]["pl"]["p"]:
            return self.ref_target(d["op"]["pl"]["l"], depth + 1)
        if d.get("k") == "call":
            cp = callee_path(d["t"]) or ""
            if cp.endswith(("Deref>::deref", "DerefMut>::deref_mut")) and d["t"]["args"] and d["t"]["args"][0].get("k") in ("copy", "move"):
                return self.ref_target(d["t"]["args"][0]["pl"]["l"], depth + 1)
        return None

    def op_local(self, op):
        if op.get("k") in ("copy", "move"):
            return op["pl"]["l"], op["pl"]["p"]
        return None, None

    def transfer_stmt(self, st, s, bi):
        if s["k"] != "assign":
            return
        lhs, rv = s["lhs"], s["rv"]
        dst = lhs["l"]
        # whole-value stores through a pointer = sinks
        if lhs["p"] and lhs["p"][0] == "*" and rv["k"] == "use":
            src, sp = self.op_local(rv["op"])
            if src in self.tracked:
                lty = self._place_ty_tail(lhs)
                if lty == "syllable" and self.ref_target(lhs["l"]) is None:
                    self.sinks.append(("store-syllable", bi, short_loc(s["loc"]), src, st.get(src), None))
                elif lty == "segments" and self.ref_target(lhs["l"]) is None:
                    self.sinks.append(("store-segments", bi, short_loc(s["loc"]), src, st.get(src), None))
                elif self.ref_target(lhs["l"]) is not None:
                    tgt = self.ref_target(lhs["l"])[0]
                    st[tgt] = st.get(src)
            return
        if dst not in self.tracked:
            return
        if lhs["p"]:
            # field store into a tracked local: x.segments = d
            if any(isinstance(p, dict) and p.get("n") == "segments" for p in lhs["p"]) and rv["k"] == "use":
                src, sp = self.op_local(rv["op"])
                if src in self.tracked:
                    st[dst] = st.get(src)
            return
        if rv["k"] == "use":
            src, sp = self.op_local(rv["op"])
            if src in self.tracked:
                st[dst] = st.get(src)
            elif src is not None and sp and sp[0] == "*":
                # copy out of something behind a pointer (an existing syllable / its segments)
                t = self.ref_target(src)
                st[dst] = st.get(t[0]) if t else N
        elif rv["k"] == "agg":
            if rv.get("adt") == SYL:
                segs_op = rv["ops"][rv["fields"].index("segments")] if "segments" in rv.get("fields", []) else None
                src, _ = self.op_local(segs_op) if segs_op else (None, None)
                st[dst] = st.get(src) if src in self.tracked else M
            else:
                # wrappers (Option/Result/tuples) of a tracked value
                vals = [st.get(self.op_local(o)[0]) for o in rv["ops"] if self.op_local(o)[0] in self.tracked]
                if vals:
                    st[dst] = vals[0]

    def _place_ty_tail(self, place):
        last = place["p"][-1]
        if place["p"] == ["*"]:
            t = self.b.local_ty(place["l"])
            return "syllable" if t.endswith("asca::syll::Syllable") else None
        if isinstance(last, dict) and last.get("of") == SYL and last.get("n") == "segments":
            return "segments"
        return None

    def transfer_term(self, st, t, bi):
        """returns {succ: state} (edge-sensitive for is_empty branches handled separately)"""
        if t["k"] != "call":
            return
        cp = callee_path(t) or ""
        inst = t["callee"].get("inst") or ""
        dst = t["dest"]["l"] if not t["dest"]["p"] else None
        args = t["args"]
        if cp == "asca::syll::Syllable::new" or (cp == "alloc::collections::vec_deque::VecDeque::new" and dst in self.tracked):
            st[dst] = E
            return
        if cp.endswith("as core::clone::Clone>::clone") and dst in self.tracked:
            a, _ = self.op_local(args[0])
            tgt = self.ref_target(a) if a is not None else None
            st[dst] = st.get(tgt[0]) if tgt else N      # clone of an existing (in-word / captured) syllable
            return
        if cp.endswith("SubRule::gen_syll_from_struct") and dst is not None:
            st[dst] = M
            return
        if (cp.endswith("Try>::branch") or cp.endswith("Option::unwrap") or cp.endswith("Result::unwrap") or cp.endswith("Option::expect")) and dst in self.tracked:
            a, _ = self.op_local(args[0])
            if a in self.tracked:
                st[dst] = st.get(a)
            return
        if cp.startswith(DEQUE) and "VecDeque::<asca::seg::Segment>" in inst:
            meth = cp[len(DEQUE):]
            a, _ = self.op_local(args[0]) if args else (None, None)
            tgt = self.ref_target(a) if a is not None else None
            if tgt:
                x = tgt[0]
                if meth in GROW:
                    st[x] = N
                elif meth == "append":
                    st[x] = N if st.get(x) == N else M
                elif meth == "clear":
                    st[x] = E
                elif meth in SHRINK:
                    st[x] = E if st.get(x) == E else M
            return
        if cp in ("alloc::vec::Vec::insert", "alloc::vec::Vec::push") and "Vec::<asca::syll::Syllable>" in inst:
            a, _ = self.op_local(args[-1])
            if a in self.tracked:
                self.sinks.append((cp.rsplit("::", 1)[-1], bi, short_loc(t["loc"]), a, st.get(a), t))
            else:
                self.sinks.append((cp.rsplit("::", 1)[-1], bi, short_loc(t["loc"]), a, None, t))
            return
        # a tracked value passed by &mut to an unknown local function may be changed
        if dst in self.tracked:
            st[dst] = M

    def run(self):
        b, cfg = self.b, self.cfg
        # branch refinements: is_empty() on a tracked local's segments
        refine = {}     # switch block -> (local, succ_if_empty, succ_if_nonempty)
        for i, t in b.calls():
            cp = callee_path(t) or ""
            if cp == DEQUE + "is_empty" and t["args"]:
                a, _ = self.op_local(t["args"][0])
                tgt = self.ref_target(a) if a is not None else None
                if tgt and not t["dest"]["p"]:
                    vals = track_value(b, t["dest"]["l"])
                    bools, _ = guard_switches(b, vals)
                    for sb, t_succ, f_succ in bools:
                        refine[sb] = (tgt[0], t_succ, f_succ)
        self.refine = refine
        instate = {0: {}}
        work = [0]
        sink_seen = set()
        iters = 0
        while work and iters < 20000:
            iters += 1
            bi = work.pop()
            st = dict(instate.get(bi, {}))
            blk = b.blocks[bi]
            self.sinks_backup = len(self.sinks)
            for s in blk["s"]:
                self.transfer_stmt(st, s, bi)
            self.transfer_term(st, blk["t"], bi)
            for su in cfg.succ[bi]:
                out = dict(st)
                if bi in refine:
                    x, t_succ, f_succ = refine[bi]
                    if su == t_succ and su != f_succ:
                        out[x] = E
                    elif su == f_succ and su != t_succ:
                        out[x] = N
                old = instate.get(su)
                if old is None:
                    instate[su] = out
                    work.append(su)
                else:
                    new = dict(old)
                    ch = False
                    for k in set(old) | set(out):
                        j = _join(old.get(k), out.get(k)) if (k in old and k in out) else (old.get(k) if k in old else out.get(k))
                        # a value defined on one path only: keep it (uninitialised on the other path means not used there)
                        if new.get(k) != j:
                            new[k] = j
                            ch = True
                    if ch:
                        instate[su] = new
                        work.append(su)
        # final pass: recompute sinks with the fixed-point states
        self.sinks = []
        for bi in sorted(instate):
            st = dict(instate[bi])
            blk = b.blocks[bi]
            for s in blk["s"]:
                self.transfer_stmt(st, s, bi)
            self.transfer_term(st, blk["t"], bi)
        self.in_state = instate


def origin_name(body, l, depth=0):
    """user-visible name of the variable a temporary was moved from"""
    nm = body.local_name(l)
    if nm or depth > 6:
        return nm
    d = _single_def(body, l)
    if d is not None and d.get("k") == "use" and d["op"].get("k") in ("copy", "move"):
        return origin_name(body, d["op"]["pl"]["l"], depth + 1)
    if d is not None and d.get("k") == "call":
        cp = callee_path(d["t"]) or ""
        if d["t"]["args"] and d["t"]["args"][0].get("k") in ("copy", "move"):
            inner = origin_name(body, d["t"]["args"][0]["pl"]["l"], depth + 1)
            if inner:
                return inner
        return cp.rsplit("::", 1)[-1] + "()"
    if d is not None and d.get("k") == "agg":
        return "literal"
    return None


def _fixup_follows(body, sink_blk, kind):
    """`syllables.push(<empty literal>); syllables.last_mut().unwrap().segments.push_front(seg)` — the very next
    segment-deque edit on the straight-line continuation fills the syllable just stored."""
    cfg = body.cfg
    want = "last_mut" if kind == "push" else "first_mut"
    cur = sink_blk
    seen = 0
    saw_accessor = False
    while seen < 14:
        seen += 1
        nxt = [s for s in cfg.succ[cur]]
        if len(nxt) != 1:
            return False
        cur = nxt[0]
        t = body.blocks[cur]["t"]
        if t["k"] == "call":
            cp = callee_path(t) or ""
            if cp.endswith("<impl [T]>::" + want):
                saw_accessor = True
            if cp.startswith(DEQUE):
                return saw_accessor and cp[len(DEQUE):] in ("push_front", "push_back")
            if cp.startswith("asca::"):
                return False
    return False


def flw5(ctx):
    r = RuleResult("FLW-5", "no possibly-empty syllable is stored into a word; every removal of a segment from a syllable in a word is followed by an emptiness check (or keeps a copy)", floor=63)
    lib = ctx.lib
    # helpers of the interpreter that are handed a syllable (or its segment deque) by `&mut` are expanded into their callers:
    # the typestate and the pairing analysis are intra-procedural
    from facts import inline_mir
    SYLPTR = ("&mut asca::syll::Syllable", "&mut alloc::collections::vec_deque::VecDeque<asca::seg::Segment>")

    def _helper(cb):
        return cb.path.startswith("asca::subrule::") and cb.kind in ("fn", "assoc_fn") and any(t in SYLPTR for t in cb.param_tys) and not cb.param_tys[0].endswith("SubRule")
    helpers = {b.path for b in lib.bodies if not b.in_test_mod() and _helper(b)}

    def _expand(b):
        if helpers and any((callee_path(t) or "") in helpers for _, t in b.calls()):
            return inline_mir(lib, b, _helper)
        return b
    interp = [_expand(b) for b in lib.bodies if not b.in_test_mod() and b.kind != "closure" and b.path.startswith(("asca::subrule::", "asca::syll::", "asca::rule::"))
              and b.path not in helpers]
    word_fns = [b for b in lib.bodies if not b.in_test_mod() and b.kind != "closure" and b.path.startswith("asca::word::")]
    n_sinks = n_rem = 0
    # ---------------- 5a
    for b in interp + word_fns:
        has = any((callee_path(t) or "") in ("alloc::vec::Vec::insert", "alloc::vec::Vec::push") and "Vec::<asca::syll::Syllable>" in (t["callee"].get("inst") or "")
                  for _, t in b.calls()) or any(SYL in l["ty"] and not l["ty"].startswith("&") for l in b.locals[b.mir["arg_count"] + 1:])
        if not has:
            continue
        an = SyllState(b)
        per = {}
        for kind, bi, loc, l, state, t in an.sinks:
            n_sinks += 1
            nm = origin_name(b, l) if l is not None else None
            k = (kind, nm)
            ordinal = per.get(k, 0)
            per[k] = ordinal + 1
            what = "%s: %s of `%s` into the word" % (b.path.rsplit("::", 1)[-1], kind, nm)
            if state == N:
                r.inst(what + " — NonEmpty on every path", loc, "ok")
                continue
            if state in (E, M) and kind in ("push", "insert") and _fixup_follows(b, bi, kind):
                r.inst(what + " — empty literal filled by the next statement (composite write)", loc, "accepted:push-then-fill idiom")
                continue
            if state in (E, M) and _sink_infeasible(b, an, bi):
                r.inst(what + " — inside `if X.segments.is_empty()` where X is the first half of a split guarded by !at_syll_start (never empty)", loc,
                       "accepted:infeasible branch")
                continue
            exc = UNWITNESSED_5A.get((b.path, kind, nm, ordinal))
            if state in (E, M) and exc:
                r.inst(what + " — state %s, no input reaches it with an empty syllable" % state, loc, "accepted:exception")
                e_ = {"site": "%s|%s|%s|#%d" % (b.path, kind, nm, ordinal), "reason": exc}
                if e_ not in r.exceptions:
                    r.exceptions.append(e_)
                continue
            if state is None and b.path.startswith("asca::word::") and kind == "push":
                # Word::setup pushes `sy` / `sy.clone()` guarded by explicit emptiness tests on the syllable being built
                pass
            r.inst(what + " — state %s" % state, loc, "report")
            r.report("FLW-5a|%s|%s|%s|#%d" % (b.path, kind, nm, ordinal), loc, b.path,
                     "a syllable that may be empty (%s) is stored into the word here (%s of `%s`) without an emptiness test" % (state, kind, nm),
                     state=state)
    # ---------------- 5b
    for b in interp:
        an = SyllState(b)
        cfg = b.cfg
        rems = []
        for i, t in b.calls():
            cp = callee_path(t) or ""
            if cp.startswith(DEQUE) and cp[len(DEQUE):] in SHRINK + ("clear",) and "VecDeque::<asca::seg::Segment>" in (t["callee"].get("inst") or ""):
                a, _ = an.op_local(t["args"][0])
                if a is not None and an.ref_target(a) is None:
                    rems.append((cp[len(DEQUE):], i, t, a))
        if not rems:
            continue
        err_exits = {i for i, t in b.calls() if (callee_path(t) or "").endswith("FromResidual<core::result::Result<core::convert::Infallible, E>>>::from_residual")}
        # emptiness checks on in-word syllables that lead to a syllable removal / overwrite
        checks = set()
        for i, t in b.calls():
            cp = callee_path(t) or ""
            if cp == DEQUE + "is_empty" and t["args"]:
                a, _ = an.op_local(t["args"][0])
                if a is None or an.ref_target(a) is not None:
                    continue
                if _root_is_param_word(b, a):
                    continue          # emptiness of the *input* word says nothing about the word being rewritten
                vals = track_value(b, t["dest"]["l"])
                bools, _ = guard_switches(b, vals)
                for sb, t_succ, f_succ in bools:
                    region = {x for x in cfg.reach if cfg.dominates(t_succ, x)} if t_succ != f_succ else set()
                    fix_blocks = set()
                    for x in region:
                        tt = b.blocks[x]["t"]
                        if tt["k"] == "call":
                            c2 = callee_path(tt) or ""
                            if (c2 in ("alloc::vec::Vec::remove", "alloc::vec::Vec::pop") and "Vec::<asca::syll::Syllable>" in (tt["callee"].get("inst") or "")) or c2.endswith("Word::remove_syll"):
                                fix_blocks.add(x)
                        for s in b.blocks[x]["s"]:
                            if s["k"] == "assign" and s["lhs"]["p"] == ["*"] and b.local_ty(s["lhs"]["l"]).endswith("asca::syll::Syllable"):
                                fix_blocks.add(x)
                    # the repair is what an empty syllable meets on EVERY way on: a further condition between the test and the
                    # removal (`is_empty() && !joined.contains(..)`) lets an empty syllable through
                    escapes = bool(fix_blocks) and t_succ not in fix_blocks and f_succ in cfg.reachable_from(t_succ, avoid=fix_blocks | err_exits)
                    if fix_blocks and not escapes:
                        checks.add(i)
        per = {}
        for meth, bi, t, a in rems:
            n_rem += 1
            loc = short_loc(t["loc"])
            ordinal = per.get(meth, 0)
            per[meth] = ordinal + 1
            fn = b.path.rsplit("::", 1)[-1]
            # (b) keeps a copy: inside a loop guarded by `run_length > c`, c >= 1
            if _guarded_by_runlength(b, bi):
                r.inst("%s: segments.%s keeps at least one copy of the run (guard `len > c`, c >= 1)" % (fn, meth), loc, "accepted:run-length guard")
                continue
            # (c) split idiom under a `!at_syll_start()` guard
            if _guarded_not_at_syll_start(b, bi) and meth == "pop_back" and _in_len_gt_loop(b, bi):
                r.inst("%s: split `while a.len() > pos.seg_index { b.push_front(a.pop_back()) }` with seg_index > 0" % fn, loc, "accepted:split keeps the first half non-empty")
                continue
            # (a) emptiness check on every normal path afterwards
            ok = bool(checks) and cfg.must_pass_through(bi, set(checks) | err_exits, cfg.exits) and bi not in checks
            if not ok and bool(checks) and _in_len_gt_loop(b, bi):
                # split loop: the check comes after the loop
                ok = cfg.must_pass_through(bi, set(checks) | err_exits, cfg.exits)
            r.inst("%s: segments.%s on a syllable in the word is followed on every path by an emptiness check that removes/overwrites the syllable" % (fn, meth),
                   loc, "ok" if ok else "report")
            if not ok:
                r.report("FLW-5b|%s|%s|#%d" % (b.path, meth, ordinal), loc, b.path,
                         "a segment is removed from a syllable inside the word (%s) and no emptiness check of the rewritten word follows on every path: an empty syllable can remain" % meth)
    r.analysed = {"syllable_sinks": n_sinks, "in_word_removals": n_rem}
    return r


# flagged by the path-insensitive typestate, but no input could be exhibited (value-level fact about the cursor): one named site each
UNWITNESSED_5A = {
    ("asca::subrule::SubRule::insert", "insert", "after_syll", 0):
        "a syllable variable can only be bound by a before-context; the insertion cursor after a before-context is a syllable start or lies "
        "inside the syllable, so the second half of the split is never empty (no witness found; `* > 1 / %=1 a_#` etc. give well-formed words)",
}


def _root_ref(b, l, depth=0):
    """the `&mut Syllable` local a reference chain starts from (result of get_mut / index_mut / unwrap ...)"""
    if depth > 10:
        return None
    d = _single_def(b, l)
    if d is None:
        return l
    if d.get("k") == "ref":
        return _root_ref(b, d["pl"]["l"], depth + 1) if d["pl"]["p"] and d["pl"]["p"][0] == "*" else d["pl"]["l"]
    if d.get("k") == "use" and d["op"].get("k") in ("copy", "move") and not d["op"]["pl"]["p"]:
        return _root_ref(b, d["op"]["pl"]["l"], depth + 1)
    return l


def _sink_infeasible(b, an, sink_blk):
    cfg = b.cfg
    for i, t in b.calls():
        if (callee_path(t) or "") != DEQUE + "is_empty" or not t["args"]:
            continue
        a, _ = an.op_local(t["args"][0])
        if a is None or an.ref_target(a) is not None:
            continue
        root = _root_ref(b, a)
        vals = track_value(b, t["dest"]["l"])
        bools, _ = guard_switches(b, vals)
        for sb, t_succ, f_succ in bools:
            if t_succ == f_succ or not cfg.dominates(t_succ, sink_blk):
                continue
            shr = []
            for j, tt in b.calls():
                cp = callee_path(tt) or ""
                if cp.startswith(DEQUE) and cp[len(DEQUE):] in SHRINK + ("clear",) and tt["args"]:
                    a2, _ = an.op_local(tt["args"][0])
                    if a2 is not None and an.ref_target(a2) is None and _root_ref(b, a2) == root and i in cfg.reachable_from(j):
                        shr.append((cp[len(DEQUE):], j))
            if shr and all(m == "pop_back" and _guarded_not_at_syll_start(b, j) and _in_len_gt_loop(b, j) for m, j in shr):
                return True
    return False


def _root_is_param_word(b, l, depth=0):
    """does the reference chain of local l start at a `&Word` parameter (the input word)?"""
    if depth > 10:
        return False
    if 1 <= l <= b.mir["arg_count"]:
        return b.local_ty(l) == "&asca::word::Word"
    if not b.local_ty(l).startswith("&"):
        return False          # a by-value local (e.g. the working copy `res_word`)
    d = _single_def(b, l)
    if d is None:
        return False
    if d.get("k") == "ref":
        return _root_is_param_word(b, d["pl"]["l"], depth + 1)
    if d.get("k") == "use" and d["op"].get("k") in ("copy", "move"):
        return _root_is_param_word(b, d["op"]["pl"]["l"], depth + 1)
    if d.get("k") == "call" and d["t"]["args"] and d["t"]["args"][0].get("k") in ("copy", "move"):
        return _root_is_param_word(b, d["t"]["args"][0]["pl"]["l"], depth + 1)
    return False


def _cmp_switches(b):
    """[(switch block, true_succ, false_succ, op, a_local, b_operand)] for switches on a comparison result"""
    out = []
    for i, blk in enumerate(b.blocks):
        t = blk["t"]
        if t["k"] != "switch" or t["op"].get("k") not in ("copy", "move") or t["op"]["pl"]["p"]:
            continue
        d = _single_def(b, t["op"]["pl"]["l"])
        if d is None or d.get("k") != "binop" or d["op"] not in ("Gt", "Ge", "Lt", "Le"):
            continue
        zero = dict((v, tg) for v, tg in t["vals"]).get(0)
        if zero is None:
            continue
        out.append((i, t["otherwise"], zero, d["op"], d["a"], d["b"]))
    return out


def _in_range_loop_below_runlength(b, blk):
    """the block sits in a `for _ in k..run_length` loop with k >= 1: it runs at most run_length - 1 times"""
    cfg = b.cfg
    for h, body in cfg.loops:
        if blk not in body:
            continue
        t = b.blocks[h]["t"]
        if t["k"] != "call" or not (t["callee"].get("def") or "").endswith("Iterator::next") or "ops::range::Range<usize>" not in (t["callee"].get("inst") or ""):
            continue
        # &mut iter -> iter -> into_iter(range) -> Range { start, end }
        it = t["args"][0]
        if it.get("k") not in ("copy", "move"):
            continue
        l = _param_root(b, it["pl"]["l"], through_refs=True)
        for _ in range(4):
            d = _single_def(b, l)
            if d is None:
                break
            if d.get("k") == "call" and (d["t"]["callee"].get("def") or "").endswith("IntoIterator::into_iter") and d["t"]["args"][0].get("k") in ("copy", "move"):
                l = d["t"]["args"][0]["pl"]["l"]
                continue
            if d.get("k") == "use" and d["op"].get("k") in ("copy", "move"):
                l = d["op"]["pl"]["l"]
                continue
            if d.get("k") == "agg" and (d.get("adt") or "").endswith("ops::range::Range") and len(d.get("ops", [])) == 2:
                lo, hi = d["ops"]
                lo_c = const_of(b, lo)
                if lo_c and isinstance(lo_c.get("int"), int) and lo_c["int"] >= 1 and hi.get("k") in ("copy", "move") \
                        and any(x == "get_seg_length_at" for x in _all_defs(b, hi["pl"]["l"])):
                    return True
            break
    return False


def _guarded_by_runlength(b, blk):
    cfg = b.cfg
    nparams = len(b.param_tys)
    if _in_range_loop_below_runlength(b, blk):
        return True
    for sb, t_succ, f_succ, op, a, c in _cmp_switches(b):
        if op != "Gt" or a.get("k") not in ("copy", "move"):
            continue
        if not (cfg.dominates(sb, blk) and only_reachable_via(cfg, sb, f_succ, blk)):
            continue
        if c.get("k") == "const" and isinstance(c.get("int"), int) and c["int"] >= 1:
            # the compared local is (a copy of) a run length obtained from get_seg_length_at
            srcs = _all_defs(b, a["pl"]["l"])
            if any(x == "get_seg_length_at" for x in srcs):
                return True
            continue
        # a helper: `while *len > target` with both the run length and the target handed in by the callers
        if c.get("k") in ("copy", "move") and not c["pl"]["p"]:
            pc = _param_root(b, c["pl"]["l"])
            pa = _param_root(b, a["pl"]["l"])
            if pc is None or pa is None or not (1 <= pc <= nparams and 1 <= pa <= nparams):
                continue
            sites = [(cb, t) for cb in b.unit.bodies if not cb.in_test_mod() for _, t in cb.calls() if (callee_path(t) or "") == b.path]
            if not sites:
                continue
            ok = True
            for cb, t in sites:
                ac, aa = t["args"][pc - 1], t["args"][pa - 1]
                cv = const_of(cb, ac)
                if not (cv and isinstance(cv.get("int"), int) and cv["int"] >= 1):
                    ok = False
                    break
                if aa.get("k") not in ("copy", "move"):
                    ok = False
                    break
                root = _param_root(cb, aa["pl"]["l"], through_refs=True)
                if root is None or not any(x == "get_seg_length_at" for x in _all_defs(cb, root)):
                    ok = False
                    break
            if ok:
                return True
    return False


def _param_root(b, l, depth=0, through_refs=False):
    """follow copies / derefs / (optionally) `&mut x` back to the local they started from"""
    if depth > 8:
        return l
    d = _single_def(b, l)
    if d is None:
        return l
    if d.get("k") == "use" and d["op"].get("k") in ("copy", "move"):
        return _param_root(b, d["op"]["pl"]["l"], depth + 1, through_refs)
    if d.get("k") == "ref" and (through_refs or (d["pl"]["p"] and d["pl"]["p"][0] == "*")):
        return _param_root(b, d["pl"]["l"], depth + 1, through_refs)
    return l


def _all_defs(b, l, depth=0, seen=None):
    seen = seen or set()
    if l in seen or depth > 6:
        return set()
    seen.add(l)
    out = set()
    for blk in b.blocks:
        for s in blk["s"]:
            if s["k"] == "assign" and s["lhs"]["l"] == l and not s["lhs"]["p"]:
                rv = s["rv"]
                if rv["k"] == "use" and rv["op"].get("k") in ("copy", "move"):
                    out |= _all_defs(b, rv["op"]["pl"]["l"], depth + 1, seen)
                elif rv["k"] == "binop":
                    for o in (rv["a"], rv["b"]):
                        if o.get("k") in ("copy", "move"):
                            out |= _all_defs(b, o["pl"]["l"], depth + 1, seen)
        t = blk["t"]
        if t["k"] == "call" and t["dest"]["l"] == l and not t["dest"]["p"]:
            out.add((callee_path(t) or "").rsplit("::", 1)[-1])
    return out


def _guarded_not_at_syll_start(b, blk):
    cfg = b.cfg
    for i, t in b.calls():
        if (callee_path(t) or "").endswith("SegPos::at_syll_start") and not t["dest"]["p"]:
            vals = track_value(b, t["dest"]["l"])
            bools, _ = guard_switches(b, vals)
            for sb, t_succ, f_succ in bools:
                if cfg.dominates(sb, blk) and only_reachable_via(cfg, sb, t_succ, blk):
                    return True
    return False


def _in_len_gt_loop(b, blk):
    """blk is inside a loop whose condition is `<deque>.len() > x`"""
    cfg = b.cfg
    for sb, t_succ, f_succ, op, a, c in _cmp_switches(b):
        if op != "Gt" or a.get("k") not in ("copy", "move"):
            continue
        if "len" not in _all_defs(b, a["pl"]["l"]):
            continue
        for h, body in cfg.loops_containing(blk):
            if sb in body and cfg.dominates(sb, blk) and only_reachable_via(cfg, sb, f_succ, blk):
                return True
    return False


# ====================================================================== FLW-6


def _root_local(b, l, depth=0):
    """follow refs / derefs / as_str-like calls back to the owning local"""
    if depth > 10:
        return l
    d = _single_def(b, l)
    if d is None:
        return l
    if d.get("k") == "ref":
        return _root_local(b, d["pl"]["l"], depth + 1)
    if d.get("k") == "use" and d["op"].get("k") in ("copy", "move"):
        return _root_local(b, d["op"]["pl"]["l"], depth + 1)
    if d.get("k") == "call":
        cp = callee_path(d["t"]) or ""
        if cp.endswith(("Deref>::deref", "String::as_str", "AsRef<str>>::as_ref", "<impl str>::chars")) and d["t"]["args"] and d["t"]["args"][0].get("k") in ("copy", "move"):
            return _root_local(b, d["t"]["args"][0]["pl"]["l"], depth + 1)
    return l


def _closure_of(b, op):
    """def path of the closure passed as operand `op` (non-capturing: a ZST constant; capturing: an aggregate)"""
    if op.get("k") == "const" and op.get("fn"):
        return op["fn"]
    if op.get("k") in ("copy", "move") and not op["pl"]["p"]:
        d = _single_def(b, op["pl"]["l"])
        if d is not None and d.get("k") == "agg" and d.get("ak") == "closure":
            return d.get("fn")
    return None


def _zero_filtered_collect(b, root, depth=0):
    """the string `root` is collected from an iterator chain that passes `filter(|c| c != '0')`"""
    if depth > 8 or root is None:
        return False
    d = _single_def(b, root)
    if d is None or d.get("k") != "call":
        return False
    t = d["t"]
    cp = callee_path(t) or ""
    if cp.endswith("Iterator>::filter") or cp.endswith("Iterator::filter"):
        cl = _closure_of(b, t["args"][1]) if len(t["args"]) > 1 else None
        cb = b.unit.body(cl) if cl else None
        if cb is not None:
            has_zero = any(o.get("k") == "const" and o.get("char") == "0" for blk in cb.blocks for st in blk["s"] if st["k"] == "assign"
                           for o in _rv_operands(st["rv"])) or any(
                a.get("k") == "const" and a.get("char") == "0" for _, tt in cb.calls() for a in tt["args"])
            # promoted `&'0'`
            has_zero = has_zero or any(c.get("char") == "0" for c in (cb.j.get("promoted_consts") or []))
            ne = any(st["k"] == "assign" and st["rv"].get("k") == "binop" and st["rv"].get("op") == "Ne" for blk in cb.blocks for st in blk["s"]) or any(
                (callee_path(tt) or "").endswith("::ne") for _, tt in cb.calls())
            if has_zero and ne:
                return True
    if t["args"] and t["args"][0].get("k") in ("copy", "move") and not t["args"][0]["pl"]["p"] and (
            "Iterator" in cp or cp.endswith("::collect") or cp.endswith("::iter") or cp.endswith("::chars")):
        return _zero_filtered_collect(b, t["args"][0]["pl"]["l"], depth + 1)
    return False


def _rv_operands(rv):
    from facts import iter_operands_rv
    return list(iter_operands_rv(rv))


def flw6(ctx):
    r = RuleResult("FLW-6", "tone values are capped at four non-zero digits where they originate; other tone writes copy a tone or go through concat_tone", floor=16)
    lib = ctx.lib
    import json as _json
    # ---- (a) every str::parse::<u16> is guarded by the repository's cap idiom
    n_parse = 0
    for b in lib.bodies:
        if b.in_test_mod():
            continue
        cfg = None
        for bi, t in b.calls():
            inst = t["callee"].get("inst") or ""
            if not inst.endswith("parse::<u16>"):
                continue
            n_parse += 1
            cfg = b.cfg
            recv = t["args"][0]["pl"]["l"] if t["args"] and t["args"][0].get("k") in ("copy", "move") else None
            root = _root_local(b, recv) if recv is not None else None
            ok = False
            why = "no `chars().count() > 4` test guards it"
            for sb, t_succ, f_succ, op, a, c in _cmp_switches(b):
                if op != "Gt" or c.get("k") != "const" or c.get("int") != 4 or a.get("k") not in ("copy", "move"):
                    continue
                d = _single_def(b, a["pl"]["l"])
                if d is None or d.get("k") != "call" or not (callee_path(d["t"]) or "").endswith("Iterator>::count"):
                    continue
                cnt_recv = d["t"]["args"][0]["pl"]["l"] if d["t"]["args"][0].get("k") in ("copy", "move") else None
                cnt_root = _root_local(b, cnt_recv) if cnt_recv is not None else None
                if not (cfg.dominates(sb, bi) and only_reachable_via(cfg, sb, t_succ, bi)):
                    continue
                if cnt_root != root:
                    why = "the counted string is not the parsed string"
                    continue
                # zero-stripped: the string comes from replace('0', "")
                dr = _single_def(b, root)
                zero_strip = False
                if dr is not None and dr.get("k") == "call" and (callee_path(dr["t"]) or "").endswith("<impl str>::replace"):
                    aa = dr["t"]["args"]
                    zero_strip = len(aa) == 3 and (const_of(b, aa[1]) or {}).get("char") == "0" and (const_of(b, aa[2]) or {}).get("str") == ""
                else:
                    # `x = x.replace('0', "")` re-assignment: any replace('0',"") whose dest is root
                    moved_into_root = {st_["rv"]["op"]["pl"]["l"] for blk_ in b.blocks for st_ in blk_["s"]
                                       if st_["k"] == "assign" and st_["lhs"]["l"] == root and not st_["lhs"]["p"] and st_["rv"]["k"] == "use"
                                       and st_["rv"]["op"].get("k") in ("copy", "move") and not st_["rv"]["op"]["pl"]["p"]}
                    for _, tt in b.calls():
                        if (callee_path(tt) or "").endswith("<impl str>::replace") and not tt["dest"]["p"] and (
                                tt["dest"]["l"] == root or tt["dest"]["l"] in moved_into_root):
                            aa = tt["args"]
                            if len(aa) == 3 and (const_of(b, aa[1]) or {}).get("char") == "0" and (const_of(b, aa[2]) or {}).get("str") == "":
                                zero_strip = True
                if not zero_strip and _zero_filtered_collect(b, root):
                    zero_strip = True
                if zero_strip:
                    ok = True
                else:
                    why = "zeros are not stripped before counting the digits"
            fn = b.path.rsplit("::", 2)
            r.inst("%s: tone digits parsed only after `replace('0',\"\")` and `chars().count() > 4` rejected" % "::".join(fn[-2:]), short_loc(t["loc"]),
                   "ok" if ok else "report")
            if not ok:
                r.report("FLW-6|%s|parse-u16" % b.path, short_loc(t["loc"]), b.path,
                         "a tone literal is parsed to u16 here without the four-digit cap (%s): tones with more than four non-zero digits enter the word" % why)
    if n_parse < 2:
        raise AnchorMissing("fewer than 2 `parse::<u16>` tone origins found (%d)" % n_parse)
    # ---- (b) concat_tone: the concatenated value only leaves through the `len > 4` meld test
    ct = ctx.fn(lib, "asca::subrule::SubRule::concat_tone")
    cfg = ct.cfg
    pows = [i for i, t in ct.calls() if (callee_path(t) or "").endswith("::pow")]
    caps = [sb for sb, t_succ, f_succ, op, a, c in _cmp_switches(ct) if op == "Gt" and c.get("k") == "const" and c.get("int") == 4
            and a.get("k") in ("copy", "move") and "len" in _all_defs(ct, a["pl"]["l"])]
    dedups = [i for i, t in ct.calls() if (callee_path(t) or "") == "alloc::vec::Vec::dedup"]
    ok = bool(pows) and bool(caps) and all(cfg.must_pass_through(p, caps, cfg.exits) for p in pows) and bool(dedups) and all(
        cfg.must_pass_through(p, dedups, cfg.exits) for p in pows)
    r.inst("concat_tone: every path from the concatenation to a return passes `dedup` and the `len > 4` meld test", fn_loc(ct), "ok" if ok else "report")
    if not ok:
        r.report("FLW-6|concat_tone|cap", fn_loc(ct), ct.path,
                 "concat_tone can return the raw concatenation without the dedup / four-digit meld step: merged syllables can carry a five-digit tone")
    # the digit list that tested `len > 4` is replaced on every path from the true edge of that test to the return
    # (a further condition between the test and the meld would let a five-digit list through)
    capsw = [(sb, t_succ) for sb, t_succ, f_succ, op, a, c in _cmp_switches(ct) if op == "Gt" and c.get("k") == "const" and c.get("int") == 4
             and a.get("k") in ("copy", "move") and "len" in _all_defs(ct, a["pl"]["l"])]
    ok = bool(capsw)
    for sb, t_succ in capsw:
        # the vector whose length was tested
        tested = None
        for blk in ct.blocks:
            t = blk["t"]
            if t["k"] == "call" and (callee_path(t) or "").endswith("Vec::len") and t["args"] and t["args"][0].get("k") in ("copy", "move"):
                root_l = _param_root(ct, t["args"][0]["pl"]["l"], through_refs=True)
                if ct.local_name(root_l):
                    tested = root_l
        if tested is None:
            ok = False
            continue
        reassign = {i for i, blk in enumerate(ct.blocks) for st_ in blk["s"] if st_["k"] == "assign" and st_["lhs"]["l"] == tested and not st_["lhs"]["p"] and i != 0
                    and cfg.dominates(sb, i)}
        if not reassign or not cfg.must_pass_through(t_succ, reassign, cfg.exits):
            ok = False
    r.inst("concat_tone: when the digit list is longer than four it is replaced by the melded list on every path to the return", fn_loc(ct), "ok" if ok else "report")
    if not ok:
        r.report("FLW-6|concat_tone|meld", fn_loc(ct), ct.path,
                 "after `len > 4` tested true the digit list can reach the final fold unmelded (a further condition guards the meld): merged syllables can carry a five-digit tone")
    # ---- (c) every write of Syllable.tone has a capped origin
    for b in lib.bodies:
        if b.in_test_mod():
            continue
        per = 0
        for f, bi, loc, deref, s in field_writes(b, SYL, ("tone",)):
            src = _tone_source(b, s["rv"])
            ok = src is not None
            r.inst("%s: tone written from %s" % (b.path.rsplit("::", 1)[-1], src or "?"), loc, "ok" if ok else "report")
            if not ok:
                r.report("FLW-6|%s|tone-write|#%d" % (b.path, per), loc, b.path,
                         "Syllable.tone is assigned a value that is neither an existing tone, a capped literal, 0 nor concat_tone(..)")
            per += 1
    # Syllable literals
    return r


def _tone_source(b, rv, depth=0):
    if depth > 6:
        return None
    if rv["k"] == "use":
        op = rv["op"]
        if op.get("k") == "const":
            return "constant %s" % op.get("int") if op.get("int") == 0 else None
        pl = op["pl"]
        for p in pl["p"]:
            if isinstance(p, dict) and p.get("n") == "tone" and p.get("of") in (SYL, SUPRA):
                return "an existing tone (%s.tone)" % p["of"].rsplit("::", 1)[-1]
        if pl["p"] == ["*"]:
            # *t where t: &u16 bound from `Some(t) = &mods.tone`
            ty = b.local_ty(pl["l"])
            if ty in ("&u16", "&mut u16"):
                d = _single_def(b, pl["l"])
                if d is not None and d.get("k") == "ref":
                    for p in resolve_place_fields(b, d["pl"]):
                        if p[1] == "tone":
                            return "the rule's tone modifier (capped where parsed)"
                return "a tone reference"
        d = _single_def(b, pl["l"]) if not pl["p"] else None
        if d is None:
            return None
        if d.get("k") == "call":
            cp = callee_path(d["t"]) or ""
            if cp.endswith("SubRule::concat_tone"):
                return "concat_tone(..)"
            if cp.endswith("Result::unwrap_or") or cp.endswith("Option::unwrap_or"):
                a0 = d["t"]["args"][0]
                if a0.get("k") in ("copy", "move"):
                    d2 = _single_def(b, a0["pl"]["l"])
                    if d2 is not None and d2.get("k") == "call" and (d2["t"]["callee"].get("inst") or "").endswith("parse::<u16>"):
                        return "a parsed literal (cap checked at the parse site)"
            return None
        return _tone_source(b, d, depth + 1)
    return None


# ====================================================================== FLW-7


def flw7(ctx):
    # 14 sites today; the four normalising stores of the setters may legitimately be one shared helper (11)
    r = RuleResult("FLW-7", "an empty place is absent: raw `*place = ..` writes assign None only; segment node bytes are written only by set_node; data file places are normalised", floor=11)
    lib = ctx.lib
    n = 0
    for b in lib.bodies:
        if b.in_test_mod():
            continue
        for bi, t in b.calls():
            if (callee_path(t) or "") != "<asca::place::Place as core::ops::deref::DerefMut>::deref_mut":
                continue
            n += 1
            rl = t["dest"]["l"]
            # every use of the returned &mut Option<u16>
            stores, other = [], []
            for bj, blk in enumerate(b.blocks):
                for s in blk["s"]:
                    if s["k"] != "assign":
                        continue
                    if s["lhs"]["l"] == rl and s["lhs"]["p"] and s["lhs"]["p"][0] == "*":
                        stores.append(s)
                    else:
                        if _mentions_local(s["rv"], rl):
                            other.append(short_loc(s["loc"]))
                tt = blk["t"]
                if tt["k"] == "call" and any(a.get("k") in ("copy", "move") and a["pl"]["l"] == rl for a in tt["args"]):
                    other.append(short_loc(tt["loc"]))
            none_only = bool(stores) and all(_is_none_local(b, s["rv"]) for s in stores)
            ok = none_only and not other
            r.inst("%s: raw place write through DerefMut assigns None only" % b.path.rsplit("::", 1)[-1], short_loc(t["loc"]), "ok" if ok else "report")
            if not ok:
                r.report("FLW-7|%s|raw-place" % b.path, short_loc(t["loc"]), b.path,
                         "the place word is written directly (not through set_labial/.. and not `= None`): Some(0) or stray bits can be stored")
    if n < 2:
        raise AnchorMissing("expected at least two raw `*place = None` sites, found %d" % n)
    # Segment node bytes written only in set_node
    for b in lib.bodies:
        if b.in_test_mod():
            continue
        ws = field_writes(b, "asca::seg::Segment", ("root", "manner", "laryngeal", "place"))
        for f, bi, loc, deref, s in ws:
            ok = b.path == "asca::seg::Segment::set_node"
            r.inst("%s writes Segment.%s" % (b.path.rsplit("::", 2)[-2] + "::" + b.path.rsplit("::", 1)[-1], f), loc, "ok" if ok else "report")
            if not ok:
                r.report("FLW-7|%s|segment-%s" % (b.path, f), loc, b.path, "Segment.%s is written outside Segment::set_node" % f)
    # Place's inner word is written only inside place.rs setters
    for b in lib.bodies:
        if b.in_test_mod() or b.exp:
            continue
        ws = field_writes(b, "asca::place::Place", ("0",))
        for f, bi, loc, deref, s in ws:
            ok = b.path.startswith("asca::place::Place::set_")
            if not ok and b.path.startswith("asca::place::Place::") and not b.is_pub and _is_none_local(b, s["rv"]):
                # a private helper of Place that only ever stores `None` (the shared normalisation step), called from the
                # setters and from nowhere else
                callers = {cb.path for cb in lib.bodies if not cb.in_test_mod() and any((callee_path(t) or "") == b.path for _, t in cb.calls())}
                ok = bool(callers) and all(c.startswith("asca::place::Place::set_") for c in callers)
            r.inst("%s writes Place.0" % b.path.rsplit("::", 1)[-1], loc, "ok" if ok else "report", nontrivial=not ok)
            if not ok:
                r.report("FLW-7|%s|place-inner" % b.path, loc, b.path, "Place's packed word is written outside the four setters")
    # cardinals.json: no Some(0), no payload bits under an absent sub-node
    import json as _json
    from engine_tab import place_consts, place_payload_fields
    pc = place_consts(ctx)
    lowf = place_payload_fields(ctx, pc)
    cj = _json.loads(ctx.read("src/cardinals.json"))
    bad = []
    for g, sgm in cj.items():
        p = sgm.get("place")
        if p is None:
            continue
        if p == 0:
            bad.append((g, "Some(0)"))
            continue
        for K in ("LAB", "COR", "DOR", "PHR"):
            lowv = lowf[K]
            if not (p & pc[K + "_BIT"]) and (p & lowv):
                bad.append((g, "%s payload without presence bit" % K))
    r.inst("cardinals.json: %d segments have normalised places (no Some(0), no features under an absent sub-node)" % len(cj), "src/cardinals.json",
           "ok" if not bad else "report")
    if bad:
        r.report("FLW-7|cardinals.json|place", "src/cardinals.json", "CARDINALS_MAP", "ill-formed place values: %s" % bad[:8])
    return r


def _mentions_local(rv, l):
    import json as _json
    return ('"l": %d,' % l) in _json.dumps(rv)


def const_of(b, op, depth=0):
    """constant operand value, looking through `&*` of single-definition locals"""
    if op.get("k") == "const":
        return op
    if op.get("k") in ("copy", "move") and depth < 5:
        d = _single_def(b, op["pl"]["l"])
        if d is None:
            return None
        if d.get("k") == "ref":
            return const_of(b, {"k": "copy", "pl": {"l": d["pl"]["l"], "p": []}}, depth + 1)
        if d.get("k") == "use":
            return const_of(b, d["op"], depth + 1)
    return None


def _is_none_local(b, rv, depth=0):
    if _is_none(rv):
        return True
    if rv["k"] == "use" and rv["op"].get("k") in ("copy", "move") and not rv["op"]["pl"]["p"] and depth < 4:
        d = _single_def(b, rv["op"]["pl"]["l"])
        if d is not None and d.get("k") in ("agg", "use"):
            return _is_none_local(b, d, depth + 1)
    return False


def _is_none(rv):
    if rv["k"] == "agg" and rv.get("adt") == "core::option::Option" and rv.get("variant") == "None":
        return True
    if rv["k"] == "use" and rv["op"].get("k") == "const":
        pr = rv["op"].get("pretty") or ""
        return "None" in pr or (rv["op"].get("ty", "").startswith("core::option::Option<") and rv["op"].get("variant") == "None")
    return False


# ---------------------------------------------------------------- FLW-8 binding reset discipline

SUBRULE = "asca::subrule::SubRule"
BINDING_CELLS = ("alphas", "variables")


def _cell_of_guard(b, l, depth=0):
    """field of `self` whose RefCell the local `l` (a guard, a reference derived from it, or the &RefCell) belongs to"""
    if depth > 8 or l is None:
        return None
    d = _single_def(b, l)
    if d is None:
        return None
    if d.get("k") == "ref":
        for pr in d["pl"]["p"]:
            if isinstance(pr, dict) and pr.get("of") == SUBRULE and pr.get("n"):
                return pr["n"]
        return _cell_of_guard(b, d["pl"]["l"], depth + 1)
    if d.get("k") == "use" and d["op"].get("k") in ("copy", "move"):
        return _cell_of_guard(b, d["op"]["pl"]["l"], depth + 1)
    if d.get("k") == "call" and d["t"]["args"] and d["t"]["args"][0].get("k") in ("copy", "move"):
        return _cell_of_guard(b, d["t"]["args"][0]["pl"]["l"], depth + 1)
    return None


def clear_blocks(unit, b, depth=0):
    """cell name -> blocks of `b` whose terminator empties that binding table: HashMap::clear on the cell, or a call of a
    SubRule method that clears it on every path"""
    out = {c: set() for c in BINDING_CELLS}
    for bi, t in b.calls():
        cp = callee_path(t) or ""
        if cp.endswith("HashMap::clear") and t["args"] and t["args"][0].get("k") in ("copy", "move"):
            c = _cell_of_guard(b, t["args"][0]["pl"]["l"])
            if c in out:
                out[c].add(bi)
        elif cp.startswith(SUBRULE + "::") and depth < 2:
            cb = unit.body(cp)
            if cb is not None and cb is not b:
                inner = clear_blocks(unit, cb, depth + 1)
                cfg = cb.cfg
                for c in BINDING_CELLS:
                    if inner[c] and cfg.must_pass_through(0, inner[c], cfg.exits):
                        out[c].add(bi)
    return out


def flw8(ctx):
    r = RuleResult("FLW-8", "alpha / variable bindings are emptied before every match attempt and at every restart of a partial input match", floor=4)
    lib = ctx.lib
    # (a) SubRule::apply: each input_match_at call is dominated, inside the scan loop, by clears of both tables
    ap = ctx.fn(lib, SUBRULE + "::apply")
    cfg = ap.cfg
    cl = clear_blocks(lib, ap)
    calls = [bi for bi, t in ap.calls() if (callee_path(t) or "") == SUBRULE + "::input_match_at"]
    if not calls:
        raise AnchorMissing("SubRule::apply no longer calls input_match_at")
    for bi in calls:
        loops = cfg.loops_containing(bi)
        if not loops:
            raise AnchorMissing("SubRule::apply: input_match_at is not called from a loop")
        h, body = min(loops, key=lambda x: len(x[1]))
        for c in BINDING_CELLS:
            doms = [x for x in cl[c] if x in body and cfg.dominates(x, bi)]
            nxt = ap.blocks[bi]["t"].get("t")
            # or: emptied on every path from the attempt back to the loop head (tables are empty when a SubRule is built; PUR-4 keeps SubRules per word)
            tail = bool(cl[c] & body) and nxt is not None and cfg.must_pass_through(nxt, cl[c] & body, {h})
            ok = bool(doms) or tail
            r.inst("apply: `%s` is cleared on every path from the loop head to input_match_at" % c, short_loc(ap.blocks[bi]["t"]["loc"]), "ok" if ok else "report")
            if not ok:
                r.report("FLW-8|apply|%s" % c, short_loc(ap.blocks[bi]["t"]["loc"]), ap.path,
                         "a match attempt starts without emptying `%s`: bindings of the previous attempt (or of the previous word) are compared against instead of being bound afresh" % c)
    # (b) input_match_at: every restart (`state_index = 0` inside the loop) empties both tables in the same iteration
    im = ctx.fn(lib, SUBRULE + "::input_match_at")
    cfg = im.cfg
    cl = clear_blocks(lib, im)
    restarts = []
    for bi, blk in enumerate(im.blocks):
        for s in blk["s"]:
            if s["k"] == "assign" and not s["lhs"]["p"] and im.local_name(s["lhs"]["l"]) == "state_index" and s["rv"].get("k") == "use" \
                    and s["rv"]["op"].get("k") == "const" and s["rv"]["op"].get("int") == 0 and cfg.loops_containing(bi):
                restarts.append((bi, s))
    if not restarts:
        raise AnchorMissing("input_match_at: no `state_index = 0` restart inside the scan loop")
    restarts.sort(key=lambda x: int(x[1]["loc"].split(":")[1]))
    for k, (bi, s) in enumerate(restarts):
        h, body = min(cfg.loops_containing(bi), key=lambda x: len(x[1]))
        for c in BINDING_CELLS:
            before = [x for x in cl[c] if x in body and x != h and cfg.dominates(x, bi) and not cfg.dominates(x, h)]
            after = cl[c] and cfg.must_pass_through(bi, cl[c] & body, {h} | set(cfg.exits)) and bi not in cl[c]
            ok = bool(before) or bool(after)
            r.inst("input_match_at: restart #%d empties `%s` in the same iteration" % (k, c), short_loc(s["loc"]), "ok" if ok else "report")
            if not ok:
                r.report("FLW-8|input_match_at|restart#%d|%s" % (k, c), short_loc(s["loc"]), im.path,
                         "the partial input match is abandoned and matching restarts, but `%s` keeps the bindings of the abandoned attempt: an alpha or variable is then compared with a stale value" % c)
    return r


# ---------------------------------------------------------------- FLW-9 refusal guards read the word being edited


def _root_name(e, want_ty=None):
    e = hirq.strip(e)
    while True:
        k = e.get("e")
        if k in ("field", "index", "addr", "unary"):
            e = hirq.strip(e["a"])
        elif k == "mcall":
            e = hirq.strip(e["recv"])
        else:
            break
    if e.get("e") != "path" or "local" not in e:
        return None
    if want_ty and want_ty not in (e.get("ty") or ""):
        return None
    return e["local"]


UNWITNESSED_9 = {
    ("asca::subrule::SubRule::substitution", "DeletionOnlySeg", 0):
        "surplus-input deletion after a substitution: the guard reads the original word's syllable; no rule/word could be exhibited where the two "
        "counts differ at this point while the result has a single syllable (the kept output segments precede the deleted ones in it)",
}


def flw9(ctx):
    r = RuleResult("FLW-9", "`DeletionOnlySeg` / `DeletionOnlySyll` refusals test the word that the following removal edits, not its pre-image", floor=6)
    lib = ctx.lib
    from hirq import parent_map
    n = 0
    for fpath in ("asca::subrule::SubRule::transform", "asca::subrule::SubRule::substitution"):
        b = ctx.fn(lib, fpath)
        # a private helper that is lent the word being rewritten (`Self::delete_segment(&mut res_word, sp)`) is read in place
        root = hirq.inline_helpers(lib, b, prefixes=("asca::subrule::SubRule::",), max_depth=1,
                                   only_if=lambda cb: any(t == "&mut asca::word::Word" for t in (cb.param_tys or [])))
        par = parent_map(root)
        ordinal = {}
        for node in hirq.walk(root):
            if node["e"] != "if":
                continue
            which = None
            for m in hirq.walk(node["then"]):
                if m["e"] == "path" and (m.get("path") or "").startswith("asca::error::runtime::RuleRuntimeError::DeletionOnly"):
                    which = m["path"].rsplit("::", 1)[-1]
            if which is None or any(x["e"] == "if" for x in hirq.walk(node["then"])):
                continue
            # the enclosing block and the first removal after the guard
            blk = par.get(id(node))
            while blk is not None and blk.get("e") != "block":
                blk = par.get(id(blk))
            if blk is None:
                continue
            edited = None
            in_loop = False
            for st in hirq.stmts_after(blk, node):
                for m in hirq.walk(st):
                    if m["e"] == "mcall" and m["name"] in ("remove", "remove_syll", "pop_back", "pop_front", "drain", "truncate", "clear", "swap_remove"):
                        edited = _root_name(m["recv"], "asca::word::Word")
                        if edited:
                            # the removal sits in a loop that does not re-evaluate the guard: one test, several removals
                            in_loop = any(lp["e"] in ("loop",) or (lp["e"] == "match" and lp.get("src") == "ForLoopDesugar") for lp in hirq.walk(st)
                                          if any(y is m for y in hirq.walk(lp)) and lp is not m)
                            break
                if edited:
                    break
            if not edited:
                continue
            roots = {_root_name(m["recv"], "asca::word::Word") for m in hirq.walk(node["cond"]) if m["e"] == "mcall" and m["name"] in ("len", "is_empty")}
            # a count taken earlier and kept in a local (`let only_syll = res_word.syllables.len() <= 1`)
            cached = None
            for m in hirq.walk(node["cond"]):
                if m["e"] == "path" and "hid" in m:
                    for lt in hirq.walk(root):
                        if lt["e"] == "let" and lt.get("init") is not None and any(q.get("hid") == m["hid"] for q in hirq.walk_pats(lt["pat"]) if q.get("p") == "bind"):
                            rs = {_root_name(y["recv"], "asca::word::Word") for y in hirq.walk(lt["init"]) if y["e"] == "mcall" and y["name"] in ("len", "is_empty")}
                            rs.discard(None)
                            if rs:
                                roots |= rs
                                # is the guard inside a loop that the `let` is outside of?
                                x = par.get(id(node))
                                while x is not None:
                                    if x.get("e") == "loop" or (x.get("e") == "match" and "ForLoop" in str(x.get("src"))):
                                        if not any(y is lt for y in hirq.walk(x)):
                                            cached = (m.get("local"), lt.get("ln"))
                                        break
                                    x = par.get(id(x))
            roots.discard(None)
            k = ordinal.get(which, 0)
            ordinal[which] = k + 1
            n += 1
            if cached:
                r.inst("%s: %s #%d guard uses `%s`, a count taken before the loop" % (fpath.rsplit("::", 1)[-1], which, k, cached[0]), fn_loc(b, node["ln"]), "report")
                r.report("FLW-9|%s|%s|#%d|cached" % (fpath, which, k), fn_loc(b, node["ln"]), fpath,
                         "the refusal tests `%s`, computed once (line %s) before the loop over the matched elements, while the loop removes segments and syllables: after an earlier removal in the same match the count is stale and the last syllable of the word can be deleted" % cached)
                continue
            stale = sorted(x for x in roots if x != edited)
            exc = UNWITNESSED_9.get((fpath, which, k))
            verdict = "ok" if not stale else ("accepted:exception" if exc else "report")
            r.inst("%s: %s #%d guard counts in %s, removal edits `%s`" % (fpath.rsplit("::", 1)[-1], which, k, sorted(roots), edited), fn_loc(b, node["ln"]), verdict)
            if stale and exc:
                e_ = {"site": "%s|%s|#%d" % (fpath, which, k), "reason": exc}
                if e_ not in r.exceptions:
                    r.exceptions.append(e_)
            if in_loop and which == "DeletionOnlySeg":
                r.inst("%s: %s #%d guards a removal that is repeated in a loop" % (fpath.rsplit("::", 1)[-1], which, k), fn_loc(b, node["ln"]), "report")
                r.report("FLW-9|%s|%s|#%d|loop" % (fpath, which, k), fn_loc(b, node["ln"]), fpath,
                         "the only-segment refusal is tested once, but the removal it guards is repeated in a loop: a long segment that is the whole word passes the test (two slots) and is then removed completely, leaving a word without syllables")
            elif stale and not exc:
                r.report("FLW-9|%s|%s|#%d" % (fpath, which, k), fn_loc(b, node["ln"]), fpath,
                         "the refusal counts segments/syllables of `%s` but the removal that follows edits `%s`: after an earlier removal in the same match the counts differ and the last segment (syllable) of the word is deleted"
                         % ("`, `".join(stale), edited))
    if n < 6:
        raise AnchorMissing("only %d DeletionOnly* guards followed by a removal found" % n)
    return r


# ---------------------------------------------------------------- VAR-1 a syllable variable matches only an identical syllable


def var1(ctx):
    r = RuleResult("VAR-1", "a syllable variable compares segments, stress and tone of the current syllable with the captured one (segments only where modifiers restate stress/tone)", floor=4)
    lib = ctx.lib
    SYL_FIELDS = {f["name"] for f in ctx.adt(lib, "asca::syll::Syllable")["variants"][0]["fields"]}
    for fpath in ("asca::subrule::SubRule::context_match_syll_var", "asca::subrule::SubRule::input_match_syll_var"):
        b = ctx.fn(lib, fpath)
        root = b.hir["body"]
        # the captured syllable parameter and everything let-derived from it
        cap = [n for n, t in zip(b.param_names, b.param_tys) if t == "&asca::syll::Syllable"]
        if len(cap) != 1:
            raise AnchorMissing("%s: captured-syllable parameter not found" % fpath)
        cap = {cap[0]}
        changed = True
        while changed:
            changed = False
            for n in hirq.walk(root):
                if n["e"] == "let" and n["pat"].get("p") == "bind" and n.get("init") is not None and n["pat"]["name"] not in cap:
                    if any(m["e"] == "path" and m.get("local") in cap for m in hirq.walk(n["init"])):
                        cap.add(n["pat"]["name"])
                        changed = True
        # the `if let Some(..) = mods` split
        split = None
        for n in hirq.walk(root):
            if n["e"] == "if":
                c = hirq.strip(n["cond"])
                if c.get("e") == "letcond" and hirq.strip(c["init"]).get("local") == "mods":
                    split = n
                    break
        if split is None:
            raise AnchorMissing("%s: `if let Some(..) = mods` not found" % fpath)
        with_ids = {id(x) for x in hirq.walk(split["then"])}
        else_ids = {id(x) for x in hirq.walk(split["else"])} if split.get("else") is not None else set()

        def fields_of(cmp):
            """fields of the syllable this `!=` / `==` compares between the current and the captured syllable"""
            sides = [hirq.strip(cmp["a"]), hirq.strip(cmp["b"])]
            roots = []
            flds = []
            whole_tys = []
            for sd in sides:
                whole = sd
                while whole.get("e") in ("unary", "addr"):
                    whole = hirq.strip(whole["a"])
                if whole.get("e") == "path" and "local" in whole:
                    roots.append(whole["local"])
                    flds.append(None)
                    whole_tys.append(whole.get("ty") or "")
                elif whole.get("e") == "field":
                    base = hirq.strip(whole["a"])
                    while base.get("e") in ("unary", "addr"):
                        base = hirq.strip(base["a"])
                    roots.append(base.get("local"))
                    flds.append(whole["name"])
                else:
                    roots.append(None)
                    flds.append(None)
            if sum(1 for x in roots if x in cap) != 1 or None in roots:
                return set()
            # whole-syllable comparison (both sides typed Syllable) covers every field
            named = [f for f in flds if f]
            if not named:
                return set(SYL_FIELDS) if whole_tys and all(t.lstrip("&").replace("mut ", "") == "asca::syll::Syllable" for t in whole_tys) else set()
            return {named[0]} if named[0] in SYL_FIELDS else set()

        cov = {"common": set(), "with": set(), "without": set()}
        for n in hirq.walk(root):
            if n["e"] == "binary" and n["op"] in ("Ne", "Eq"):
                fs = fields_of(n)
                if not fs:
                    continue
                where = "with" if id(n) in with_ids else ("without" if id(n) in else_ids else "common")
                cov[where] |= fs
        short = fpath.rsplit("::", 1)[-1]
        without = cov["common"] | cov["without"]
        withm = cov["common"] | cov["with"]
        ok1 = SYL_FIELDS <= without
        r.inst("%s: without modifiers compares %s of the captured syllable" % (short, sorted(without)), fn_loc(b, split["ln"]), "ok" if ok1 else "report")
        if not ok1:
            r.report("VAR-1|%s|plain" % fpath, fn_loc(b, split["ln"]), fpath,
                     "a syllable variable without modifiers is accepted without comparing %s with the captured syllable: it matches a syllable that is not identical to the one it captured"
                     % sorted(SYL_FIELDS - without))
        ok2 = "segments" in withm
        r.inst("%s: with modifiers compares %s of the captured syllable" % (short, sorted(withm)), fn_loc(b, split["ln"]), "ok" if ok2 else "report")
        if not ok2:
            r.report("VAR-1|%s|with-mods" % fpath, fn_loc(b, split["ln"]), fpath, "a syllable variable with modifiers is accepted without comparing the segments with the captured syllable")
    return r


# ---------------------------------------------------------------- VAR-2 syllables captured while matching backwards are stored in reading order


def var2(ctx):
    r = RuleResult("VAR-2", "a syllable variable captured by a direction-aware context matcher is stored in reading order (the backwards branch reverses the copy)", floor=3)
    lib = ctx.lib
    n = 0
    for b in lib.bodies:
        if b.in_test_mod() or not b.hir or not b.path.startswith("asca::subrule::SubRule::") or "forwards" not in b.param_names:
            continue
        root = b.hir["body"]
        par = hirq.parent_map(root)
        k = 0
        for node in hirq.walk(root):
            if not (node["e"] == "mcall" and node["name"] == "insert" and any(
                    m["e"] == "call" and (hirq.strip(m["f"]).get("path") or "") == "asca::subrule::VarKind::Syllable" for a in node["args"] for m in hirq.walk(a))):
                continue
            if not any(m["e"] == "field" and m.get("name") == "variables" for m in hirq.walk(node["recv"])):
                continue
            # enclosing `if forwards` / `if !forwards`
            x, child = par.get(id(node)), node
            branch = None
            while x is not None:
                if x.get("e") == "if":
                    c = hirq.strip(x["cond"])
                    neg = False
                    if c.get("e") == "unary" and c.get("op") == "Not":
                        neg = True
                        c = hirq.strip(c["a"])
                    if c.get("e") == "path" and c.get("local") == "forwards":
                        in_then = any(y is child for y in hirq.walk(x["then"]))
                        branch = ("forwards" if in_then != neg else "backwards", x, in_then)
                        break
                child = x
                x = par.get(id(x))
            n += 1
            if branch is None:
                # one store for both directions: the stored local must have been reversed under `!forwards` beforehand
                stored = None
                for a_ in node["args"]:
                    for m in hirq.walk(a_):
                        if m["e"] == "call" and (hirq.strip(m["f"]).get("path") or "") == "asca::subrule::VarKind::Syllable" and m["args"]:
                            stored = hirq.path_hid(m["args"][0])
                rev_ok = False
                if stored is not None:
                    for iff in [y for y in hirq.walk(root) if y["e"] == "if"]:
                        c = hirq.strip(iff["cond"])
                        neg = False
                        if c.get("e") == "unary" and c.get("op") == "Not":
                            neg, c = True, hirq.strip(c["a"])
                        if not (c.get("e") == "path" and c.get("local") == "forwards"):
                            continue
                        back_arm = iff["then"] if neg else iff.get("else")
                        if back_arm is not None and any(m["e"] == "mcall" and m["name"] == "reverse" and any(z["e"] == "path" and z.get("hid") == stored for z in hirq.walk(m["recv"])) for m in hirq.walk(back_arm)) \
                                and iff.get("ln", 0) <= node.get("ln", 0):
                            rev_ok = True
                if rev_ok:
                    r.inst("%s: capture #%d stores a copy that was reversed under `!forwards`" % (b.path.rsplit("::", 1)[-1], k), fn_loc(b, node["ln"]), "ok")
                    k += 1
                    continue
                r.inst("%s: capture #%d does not depend on the direction" % (b.path.rsplit("::", 1)[-1], k), fn_loc(b, node["ln"]), "report")
                r.report("VAR-2|%s|#%d|no-split" % (b.path, k), fn_loc(b, node["ln"]), b.path,
                         "a syllable is captured into a variable without regard to `forwards`: a before-context is matched on the reversed word, so the stored syllable is back to front and a later use of the variable matches / writes its mirror image")
                k += 1
                continue
            which, iff, in_then = branch
            ok = True
            if which == "backwards":
                arm = iff["then"] if in_then else iff["else"]
                ok = any(m["e"] == "mcall" and m["name"] == "reverse" for m in hirq.walk(arm))
            r.inst("%s: capture #%d on the %s branch%s" % (b.path.rsplit("::", 1)[-1], k, which, "" if which == "forwards" else (" reverses the copy" if ok else " does NOT reverse the copy")),
                   fn_loc(b, node["ln"]), "ok" if ok else "report")
            if not ok:
                r.report("VAR-2|%s|#%d|not-reversed" % (b.path, k), fn_loc(b, node["ln"]), b.path, "the syllable captured while matching backwards is stored without being reversed")
            k += 1
    if n < 3 and not r.reports:
        raise AnchorMissing("only %d direction-aware syllable captures found" % n)
    return r
