"""SUP engine: the three-way tables of stress and length (C05), decided by *decision-table extraction*.

The matchers and setters of the suprasegmental modifiers are small decision trees over two finite domains:
stress in {Unstressed, Primary, Secondary} and segment length in {1 (short), 2 (long), 3 (overlong)} (the manual's
three-way distinctions). The rule reads the trees off the HIR -- comparison operators, constants, the `while seg_len < N`
/ `while seg_len > N` clamps, the constants assigned to `.stress` -- tabulates them over the finite domain, and checks

SUP-1  the *match* tables of SubRule::match_stress / match_seg_length and of their alias siblings equal the manual's
       tables ([+long] at least long, [-long] short, [+overlong] overlong, [-overlong] at most long; [+stress] primary
       or secondary, [-stress] unstressed, [+sec.stress] secondary only, [-sec.stress] the other two); the alpha arms
       agree with the binary arms (bound alpha = that sign, inverse alpha = the other; captured value = membership in
       the positive set, inverted for -α)
SUP-2  the *set* tables of Syllable::apply_supras / apply_syll_mods and of Word::alias_apply_length / alias_apply_stress:
       the state after applying a modifier combination is matched by that same combination, contradictory
       combinations are errors, and the alias siblings agree with the rule side

Nothing is executed; a tree that leaves the recognised fragment fails closed.
"""
import itertools

import hirq
from core import AnchorMissing, RuleResult, fn_loc

STRESS = ("Unstressed", "Primary", "Secondary")
LENGTH = (1, 2, 3)
SK = "asca::syll::StressKind::"
BINMOD = "asca::parser::BinMod::"
MODKIND = "asca::parser::ModKind::"

EXPECT_MATCH = {
    ("length", 0, True): {2, 3}, ("length", 0, False): {1},
    ("length", 1, True): {3}, ("length", 1, False): {1, 2},
    ("stress", 0, True): {"Primary", "Secondary"}, ("stress", 0, False): {"Unstressed"},
    ("stress", 1, True): {"Secondary"}, ("stress", 1, False): {"Unstressed", "Primary"},
}
# what a single modifier sets (manual: "[+long] alone lengthens a short segment to long, [+stress] alone gives primary stress";
# a state the modifier already matches is left alone, except that [+stress] always gives primary)
EXPECT_SET = {
    ("length", (True, None)): lambda l: max(l, 2), ("length", (False, None)): lambda l: 1,
    ("length", (None, True)): lambda l: 3, ("length", (None, False)): lambda l: min(l, 2),
    ("stress", (True, None)): lambda s: "Primary", ("stress", (False, None)): lambda s: "Unstressed",
    ("stress", (None, True)): lambda s: "Secondary", ("stress", (None, False)): lambda s: "Unstressed" if s == "Secondary" else s,
}
SIGN = {True: "+", False: "-"}
NAMES = {("length", 0): "long", ("length", 1): "overlong", ("stress", 0): "stress", ("stress", 1): "sec.stress"}


class Reject(Exception):
    pass


class Stop(Exception):
    def __init__(self, what):
        self.what = what


class LoopExit(Exception):
    def __init__(self, kind):
        self.kind = kind


SEG_READS = ("get_seg_length_at", "seg_length_at")
SEG_GROW = ("insert", "push_back", "push_front", "push")
SEG_SHRINK = ("remove", "pop_back", "pop_front", "pop")


def untry(e):
    """`x?` -> x"""
    e = hirq.strip(e)
    while e.get("e") == "match" and str(e.get("src", "")).startswith("TryDesugar"):
        sc = hirq.strip(e["scrut"])
        e = hirq.strip(sc["args"][0]) if sc.get("e") == "call" and sc.get("args") else sc
    return e


class Tree:
    """evaluation of a decision tree over a finite state. `dom` is 'stress' or 'length'; `state` the current value;
    `env` maps locals to: ('mod', k) a ModKind of slot k, ('bin', k) its BinMod, ('bool', v), ('state',)"""

    unit = None        # set by the rules: the library unit, for looking through local helper functions

    def __init__(self, fn, dom, state, signs, state_locals=(), state_fields=(), alpha=None):
        self.fn = fn
        self.depth = 0
        self.dom = dom
        self.state = state
        self.signs = signs          # (sign of slot 0, sign of slot 1): True / False / None (absent)
        self.env = {}
        self.state_locals = set(state_locals)
        self.state_fields = set(state_fields)
        self.alpha = alpha          # value of `alph.as_binary()` when evaluating a bound-alpha branch
        self.result = None          # e.g. ('len', n) for the alias length table
        self.captured = None
        # length domain: `state` is the *true* run length (the segments of the syllable); the locals that were read from it
        # (`let mut seg_len = self.get_seg_length_at(pos)`) are ordinary integer locals that start out equal to it
        if dom == "length":
            for nm in self.state_locals:
                self.env[nm] = state

    # ---- expressions
    def value(self, e):
        e = untry(e)
        k = e.get("e")
        if k == "lit":
            return e["lit"]
        if k == "path":
            p = e.get("path") or ""
            if p.startswith(SK):
                return p[len(SK):]
            if p.startswith(BINMOD):
                return ("binconst", p[len(BINMOD):] == "Positive")
            if "local" in e:
                nm = e["local"]
                if nm in self.state_locals and not (self.dom == "length" and isinstance(self.env.get(nm), int)):
                    return self.state
                v = self.env.get(nm)
                if v is None:
                    raise AnchorMissing("%s: cannot evaluate local `%s` (line %s)" % (self.fn, nm, e.get("ln")))
                if isinstance(v, tuple) and v and v[0] == "bool":
                    return v[1]
                return v
            raise AnchorMissing("%s: cannot evaluate path %s" % (self.fn, p))
        if k == "field":
            if e["name"] in self.state_fields:
                return self.state
            raise AnchorMissing("%s: cannot evaluate field .%s (line %s)" % (self.fn, e["name"], e.get("ln")))
        if k == "unary" and e.get("op") == "Not":
            return not self.value(e["a"])
        if k == "unary" and e.get("op") == "Deref":
            return self.value(e["a"])
        if k == "addr":
            return self.value(e["a"])
        if k == "binary":
            a, b = self.value(e["a"]), self.value(e["b"])
            op = e["op"]
            # `bm == BinMod::Positive`: a sign compared with a sign
            a = self.signs[a[1]] if isinstance(a, tuple) and a and a[0] == "bin" else a[1] if isinstance(a, tuple) and a and a[0] == "binconst" else a
            b = self.signs[b[1]] if isinstance(b, tuple) and b and b[0] == "bin" else b[1] if isinstance(b, tuple) and b and b[0] == "binconst" else b
            if op in ("Eq", "Ne"):
                return (a == b) == (op == "Eq")
            if op in ("Lt", "Le", "Gt", "Ge") and isinstance(a, int) and isinstance(b, int):
                return {"Lt": a < b, "Le": a <= b, "Gt": a > b, "Ge": a >= b}[op]
            if op == "And":
                return bool(a) and bool(b)
            if op == "Or":
                return bool(a) or bool(b)
            raise AnchorMissing("%s: operator %s (line %s)" % (self.fn, op, e.get("ln")))
        if k in ("mcall", "call") and self._local_callee(e) is not None:
            return self._inline_call(e, True)
        if k == "mcall":
            nm = e["name"]
            r = hirq.strip(e["recv"])
            if nm in SEG_READS and self.dom == "length":
                return self.state
            if nm == "as_bool":
                v = self.value(r)
                if isinstance(v, tuple) and v[0] == "mod":
                    return self.signs[v[1]]
            if nm == "as_binary":
                if self.alpha is None:
                    raise AnchorMissing("%s: as_binary() outside a bound-alpha branch" % self.fn)
                return self.alpha
            if nm in ("map_or", "map_or_else", "is_some_and", "is_none_or", "map", "and_then") and True:
                v = self.value(r)
                if isinstance(v, tuple) and v[0] == "optmod":
                    cl = [hirq.strip(a) for a in e["args"] if hirq.strip(a).get("e") == "closure"]
                    if self.signs[v[1]] is None:
                        if nm in ("map_or",):
                            return self.value(e["args"][0])
                        if nm == "is_some_and":
                            return False
                        if nm == "is_none_or":
                            return True
                        raise AnchorMissing("%s: .%s() on an absent modifier (line %s)" % (self.fn, nm, e.get("ln")))
                    if cl and cl[-1].get("params"):
                        self.matches(cl[-1]["params"][0], ("mod", v[1]))
                        return self.value(cl[-1]["body"])
            if nm in ("unwrap_or", "unwrap_or_default") and True:
                v = self.value(r)
                if v is None:
                    return self.value(e["args"][0]) if e["args"] else False
                return v
            if nm in ("as_bin_mod", "unwrap", "expect", "clone"):
                v = self.value(r)
                if isinstance(v, tuple) and v[0] == "mod":
                    return ("bin", v[1])
                return v
            raise AnchorMissing("%s: cannot evaluate call .%s() (line %s)" % (self.fn, nm, e.get("ln")))
        if k == "tup":
            return tuple(self.value(x) for x in e["items"])
        if k == "call":
            f = hirq.strip(e["f"]).get("path") or ""
            if (f.endswith("Result::Ok") or f.endswith("Option::Some")) and len(e["args"]) == 1:
                return self.value(e["args"][0])
        if k == "index":
            base = hirq.strip(e["a"])
            i = hirq.strip(e["i"])
            if i.get("e") == "lit":
                return ("optmod", i["lit"])
        if k == "block" and not e.get("stmts") and e.get("tail") is not None:
            return self.value(e["tail"])
        if k in ("if", "match", "block"):
            return self.run(e, want_value=True)
        raise AnchorMissing("%s: cannot evaluate expression `%s` (line %s)" % (self.fn, k, e.get("ln")))

    # ---- patterns
    def matches(self, pat, v):
        p = pat.get("p")
        if p == "wild":
            return True
        if p == "bind":
            if isinstance(v, bool):
                self.env[pat["name"]] = ("bool", v)
            else:
                self.env[pat["name"]] = v
            return True
        if p == "lit":
            return pat["lit"] == v
        if p == "or":
            return any(self.matches(q, v) for q in pat["pats"])
        if p == "ref":
            return self.matches(pat["sub"], v)
        if p == "path":
            path = pat.get("path") or ""
            if path.startswith(SK):
                return v == path[len(SK):]
            if path.startswith(BINMOD):
                if isinstance(v, tuple) and v[0] == "bin":
                    return self.signs[v[1]] == (path[len(BINMOD):] == "Positive")
            if path.endswith("Option::None"):
                if isinstance(v, tuple) and v[0] == "optmod":
                    return self.signs[v[1]] is None
            raise AnchorMissing("%s: pattern path %s against %r" % (self.fn, path, v))
        if p in ("ts", "struct"):
            path = pat.get("path") or ""
            subs = pat.get("pats") or [q for _, q in pat.get("fields", [])]
            if path.endswith("Option::Some"):
                if isinstance(v, tuple) and v[0] == "optmod":
                    if self.signs[v[1]] is None:
                        return False
                    return self.matches(subs[0], ("mod", v[1]))
            if path == MODKIND + "Binary":
                if isinstance(v, tuple) and v[0] == "mod":
                    # alpha modifiers are evaluated through their bound value: as far as the tables go a ModKind with a
                    # sign is a Binary one
                    return self.matches(subs[0], ("bin", v[1]))
            if path == MODKIND + "Alpha":
                return False
            raise AnchorMissing("%s: pattern %s against %r" % (self.fn, path, v))
        if p == "tup":
            return isinstance(v, tuple) and len(v) == len(pat["pats"]) and all(self.matches(q, x) for q, x in zip(pat["pats"], v))
        if p == "slice":
            subs = pat.get("before", []) + pat.get("after", [])
            if v == ("array",):
                return all(self.matches(q, ("optmod", i)) for i, q in enumerate(subs))
        raise AnchorMissing("%s: pattern kind %s" % (self.fn, p))

    # ---- statements
    def run(self, e, want_value=False):
        e = hirq.strip(e)
        k = e.get("e")
        if want_value and k not in ("block", "if", "match", "let", "loop", "assign", "assignop", "ret"):
            return self.value(e)
        if k == "block":
            for st in e.get("stmts", []):
                self.run(st)
            if e.get("tail") is not None:
                return self.run(e["tail"], want_value)
            return None
        if k == "let":
            if e.get("init") is None:
                return None
            init = untry(e["init"])
            pat = e["pat"]
            if pat.get("p") == "bind":
                try:
                    v = self.value(init)
                except AnchorMissing:
                    return None           # a local the tables do not depend on
                self.env[pat["name"]] = ("bool", v) if isinstance(v, bool) else v
            elif pat.get("p") == "tup":
                # `let (is_long, is_overlong) = (seg_length > 1, seg_length > 2);`
                try:
                    v = self.value(init)
                    if isinstance(v, tuple) and len(v) == len(pat["pats"]):
                        self.matches(pat, v)
                except AnchorMissing:
                    return None
            return None
        if k == "if":
            c = hirq.strip(e["cond"])
            if c.get("e") == "letcond":
                init = untry(c["init"])
                taken = None
                # `if let Some(len) = length[k]`
                if init.get("e") == "index":
                    v = self.value(init)
                    taken = self.matches(c["pat"], v)
                # `if let Some(alph) = self.alphas.borrow().get(..)`: bound (alpha given) or not
                elif any(m["e"] == "mcall" and m["name"] == "get" for m in hirq.walk(init)):
                    taken = self.alpha is not None
                    if taken:
                        for q in hirq.walk_pats(c["pat"]):
                            if q.get("p") == "bind":
                                self.env[q["name"]] = ("alpha",)
                else:
                    raise AnchorMissing("%s: `if let` over %s (line %s)" % (self.fn, init.get("e"), e.get("ln")))
                if taken:
                    return self.run(e["then"], want_value)
                if e.get("else") is not None:
                    return self.run(e["else"], want_value)
                return None
            if self.value(c):
                return self.run(e["then"], want_value)
            if e.get("else") is not None:
                return self.run(e["else"], want_value)
            return None
        if k == "match":
            if str(e.get("src", "")).startswith("TryDesugar"):
                return self.run(untry(e), want_value)
            sc = untry(e["scrut"])
            if "Option<asca::parser::ModKind>; 2]" in (e.get("sty") or ""):
                v = ("array",)
            elif self._is_alpha_lookup(sc):
                # `match self.alphas.borrow().get(ch) { Some(alph) => .., None => .. }`: bound or not
                for arm in e["arms"]:
                    ps = hirq.flat_pats(arm["pat"])
                    some = any((p.get("path") or "").endswith("Option::Some") for p in ps)
                    none = any((p.get("path") or "").endswith("Option::None") for p in ps) or any(p.get("p") == "wild" for p in ps)
                    if (self.alpha is not None and some) or (self.alpha is None and none and not some):
                        return self.run(arm["body"], want_value)
                raise AnchorMissing("%s: alpha lookup match at line %s has no fitting arm" % (self.fn, e.get("ln")))
            else:
                v = self.value(sc)
            for arm in e["arms"]:
                if self.matches(arm["pat"], v):
                    return self.run(arm["body"], want_value)
            raise AnchorMissing("%s: no arm of the match at line %s takes %r" % (self.fn, e.get("ln"), v))
        if k == "ret":
            a = hirq.strip(e.get("a") or {})
            self._returned(a)
        if k == "loop":
            # `while <cond> { .. }`: run it (finite state: a run length is 1..3, so eight rounds mean it does not end)
            inner = hirq.strip(e["body"])
            items = [inner] if inner.get("e") == "if" else list(inner.get("stmts", [])) + ([inner["tail"]] if inner.get("tail") is not None else [])
            if e.get("src") == "While" and len(items) == 1 and hirq.strip(items[0]).get("e") == "if":
                iff = hirq.strip(items[0])
                c = hirq.strip(iff["cond"])
                if c.get("e") == "letcond":
                    raise AnchorMissing("%s: `while let` loop at line %s" % (self.fn, e.get("ln")))
                guard = 0
                before = (self.state, dict((k_, v_) for k_, v_ in self.env.items() if isinstance(v_, int) and not isinstance(v_, bool)))
                while self.value(c):
                    try:
                        self.run(iff["then"])
                    except LoopExit as le:
                        if le.kind == "break":
                            break
                    guard += 1
                    now = (self.state, dict((k_, v_) for k_, v_ in self.env.items() if isinstance(v_, int) and not isinstance(v_, bool)))
                    if guard >= 8 or now == before:
                        raise Stop(("diverges", e.get("ln")))
                    before = now
                return None
            raise AnchorMissing("%s: unrecognised loop at line %s" % (self.fn, e.get("ln")))
        if k in ("break", "continue"):
            raise LoopExit(k)
        if k == "assignop":
            l = hirq.strip(e["lhs"])
            while l.get("e") == "unary" and l.get("op") == "Deref":
                l = hirq.strip(l["a"])
            if l.get("e") == "path" and "local" in l and isinstance(self.env.get(l["local"]), int) and not isinstance(self.env.get(l["local"]), bool):
                rhs = self.value(e["rhs"])
                if not isinstance(rhs, int):
                    raise AnchorMissing("%s: `%s %s= <non-integer>` at line %s" % (self.fn, l["local"], e.get("op"), e.get("ln")))
                cur = self.env[l["local"]]
                self.env[l["local"]] = {"AddAssign": cur + rhs, "SubAssign": cur - rhs, "MulAssign": cur * rhs}.get(e.get("op"), None)
                if self.env[l["local"]] is None:
                    raise AnchorMissing("%s: operator %s at line %s" % (self.fn, e.get("op"), e.get("ln")))
            elif l.get("e") == "path" and l.get("local") in self.state_locals:
                raise AnchorMissing("%s: length local `%s` stepped before it was read (line %s)" % (self.fn, l.get("local"), e.get("ln")))
            else:
                # an untracked counter: its right-hand side may still be a helper that edits the state
                r0 = untry(e["rhs"])
                if isinstance(r0, dict) and r0.get("e") in ("mcall", "call") and self._local_callee(r0) is not None:
                    self._inline_call(r0, True)
            return None
        if k == "assign":
            l = hirq.strip(e["lhs"])
            if self.dom == "length" and l.get("e") == "path" and "local" in l and isinstance(self.env.get(l["local"]), int) and not isinstance(self.env.get(l["local"]), bool):
                self.env[l["local"]] = self.value(e["rhs"])
            elif (l.get("e") == "field" and l["name"] in self.state_fields) or (l.get("e") == "path" and l.get("local") in self.state_locals):
                self.state = self.value(e["rhs"])
            return None
        if k == "call":
            f = hirq.strip(e["f"]).get("path") or ""
            if f.endswith("Result::Ok") or f.endswith("Result::Err") or f.endswith("Option::Some"):
                return self._final(e)
            if f.startswith("core::panicking::"):
                raise Stop(("panic", e.get("ln")))
            return None
        if k in ("mcall", "call") and self._local_callee(e) is not None:
            return self._inline_call(e, want_value)
        if k == "mcall" and self.dom == "length" and e["name"] in SEG_GROW + SEG_SHRINK and hirq.strip(e["recv"]).get("e") == "field" and hirq.strip(e["recv"]).get("name") == "segments":
            self.state += 1 if e["name"] in SEG_GROW else -1
            return None
        if k == "mcall":
            if e["name"] == "insert" and self.alpha is None:
                # `alphas.borrow_mut().insert(ch, Alpha::Supra(<cond>))`: the captured value
                for a in e["args"]:
                    a0 = hirq.strip(a)
                    if a0.get("e") == "call" and (hirq.strip(a0["f"]).get("path") or "").startswith("asca::rule::Alpha::"):
                        try:
                            self.captured = self.value(a0["args"][0])
                        except AnchorMissing:
                            pass
            return None
        if k in ("lit", "path", "tup"):
            return self._final(e)
        if k in ("binary", "unary"):
            v = self.value(e)
            if v is False:
                raise Reject()
            self.result = v
            return None
        return None

    def _state_local(self, e):
        e = hirq.strip(e)
        while e.get("e") == "unary" and e.get("op") == "Deref":
            e = hirq.strip(e["a"])
        return e.get("e") == "path" and e.get("local") in self.state_locals

    def _mut_int_local(self, a):
        """`&mut x` where x is an integer local of the current frame"""
        a0 = a
        if not (isinstance(a0, dict) and a0.get("e") == "addr" and a0.get("mut")):
            a0 = hirq.strip(a0) if isinstance(a0, dict) else a0
            return None
        x = hirq.strip(a0["a"])
        if x.get("e") == "path" and "local" in x and isinstance(self.env.get(x["local"]), int) and not isinstance(self.env.get(x["local"]), bool):
            return x["local"]
        return None

    def _try_value(self, e):
        try:
            return self.value(e)
        except AnchorMissing:
            return None

    def _local_callee(self, e):
        """a function of this crate whose body must be looked through because the state is handed to it by reference"""
        if self.unit is None:
            return None
        d = e.get("def") if e["e"] == "mcall" else (hirq.strip(e["f"]).get("path") if hirq.strip(e["f"]).get("e") == "path" else None)
        cb = self.unit.body(d) if d else None
        if cb is None or not cb.hir or cb.kind == "closure":
            return None
        args = ([e["recv"]] if e["e"] == "mcall" else []) + list(e["args"])
        hands_state = any(self._state_local(a) for a in args) or (self.state_fields and any(
            hirq.strip(a).get("e") == "path" and hirq.strip(a).get("local") == "self" for a in args[:1]) and any(
            n["e"] == "assign" and hirq.strip(n["lhs"]).get("e") == "field" and hirq.strip(n["lhs"])["name"] in self.state_fields for n in hirq.walk(cb.hir["body"])))
        if not hands_state and self.dom == "length" and args and hirq.strip(args[0]).get("e") == "path" and hirq.strip(args[0]).get("local") == "self":
            hands_state = self._edits_segments(cb, set())
        return cb if hands_state else None

    def _edits_segments(self, cb, seen):
        if cb.path in seen:
            return False
        seen.add(cb.path)
        for n in hirq.walk(cb.hir["body"]):
            if n["e"] == "mcall" and n["name"] in SEG_GROW + SEG_SHRINK and hirq.strip(n["recv"]).get("e") == "field" and hirq.strip(n["recv"]).get("name") == "segments":
                return True
            if n["e"] == "mcall" and (n.get("def") or "").startswith("asca::"):
                c2 = self.unit.body(n["def"])
                if c2 is not None and c2.hir and c2.kind != "closure" and self._edits_segments(c2, seen):
                    return True
        return False

    def _inline_call(self, e, want_value):
        cb = self._local_callee(e)
        if self.depth > 3:
            raise AnchorMissing("%s: helper calls nested too deep at line %s" % (self.fn, e.get("ln")))
        args = ([e["recv"]] if e["e"] == "mcall" else []) + list(e["args"])
        params = cb.hir.get("params") or []
        saved_env, saved_sl = dict(self.env), set(self.state_locals)
        new_sl = set()
        write_back = []
        for p_, a in zip(params, args):
            if p_.get("p") != "bind":
                continue
            if self._state_local(a):
                new_sl.add(p_["name"])
                a0 = hirq.strip(a)
                while a0.get("e") in ("unary", "addr"):
                    a0 = hirq.strip(a0["a"])
                if self.dom == "length" and isinstance(self.env.get(a0.get("local")), int):
                    self.env[p_["name"]] = self.env[a0["local"]]
                    write_back.append((p_["name"], a0["local"]))
                continue
            ml = self._mut_int_local(a)
            if ml is not None:
                # a counter lent by `&mut`: the callee's updates are the caller's
                self.env[p_["name"]] = self.env[ml]
                write_back.append((p_["name"], ml))
                continue
            v = self._try_value(a)
            if v is not None:
                self.env[p_["name"]] = ("bool", v) if isinstance(v, bool) else v
        self.state_locals = new_sl
        self.depth += 1
        ret = None
        try:
            ret = self.run(cb.hir["body"], want_value)
        except Stop as st:
            if st.what[0] != "return":
                raise
        finally:
            self.depth -= 1
            outs = [(caller, self.env.get(param)) for param, caller in write_back]
            self.env, self.state_locals = saved_env, saved_sl
            for caller, v in outs:
                if isinstance(v, int):
                    self.env[caller] = v
        return ret

    def _is_alpha_lookup(self, sc):
        return any(m["e"] == "mcall" and m["name"] == "get" for m in hirq.walk(sc)) and any(
            m["e"] == "field" and m.get("name") == "alphas" for m in hirq.walk(sc))

    def _final(self, e):
        """value of the function's tail expression"""
        e = hirq.strip(e)
        if e.get("e") == "call":
            f = hirq.strip(e["f"]).get("path") or ""
            if f.endswith("Result::Err"):
                raise Stop(("error", e.get("ln")))
            if f.endswith("Result::Ok") or f.endswith("Option::Some"):
                return self._final(e["args"][0])
        if e.get("e") == "lit":
            self.result = e["lit"]
            if e["lit"] is False:
                raise Reject()
        if e.get("e") == "tup" and e["items"]:
            first = hirq.strip(e["items"][0])
            if first.get("e") == "lit" and first["lit"] is False:
                raise Reject()
        if e.get("e") == "path" and (e.get("path") or "").endswith("Option::None"):
            self.result = None
        return None

    def _returned(self, a):
        self._final(a)
        raise Stop(("return", a.get("ln")))


def length_locals(body):
    """names of the locals that hold the run length of the segment: `let x = <..>.get_seg_length_at(..)` / `seg_length_at(..)`"""
    out = set()
    for n in hirq.walk(body.hir["body"]):
        if n["e"] == "let" and n["pat"].get("p") == "bind" and n.get("init") is not None:
            i0 = untry(n["init"])
            if i0.get("e") == "mcall" and i0["name"] in ("get_seg_length_at", "seg_length_at"):
                out.add(n["pat"]["name"])
    return tuple(sorted(out))


def _accepts(body, fn, dom, state, signs, state_locals, state_fields, alpha=None):
    t = Tree(fn, dom, state, signs, state_locals, state_fields, alpha)
    try:
        t.run(body.hir["body"])
    except Reject:
        return False, t
    except Stop as s:
        if s.what[0] in ("error", "panic", "diverges"):
            return s.what[0], t
    return True, t


def _binmod_slot_matches(body):
    """the matches on BinMod of a matcher, keyed by the slot k of the enclosing `if let Some(_) = xs[k]`"""
    par = hirq.parent_map(body.hir["body"])
    out = {}
    for m in hirq.matches(body):
        if (m.get("sty") or "").lstrip("&") != "asca::parser::BinMod":
            continue
        x = par.get(id(m))
        k = None
        while x is not None:
            if x.get("e") == "if":
                c = hirq.strip(x["cond"])
                if c.get("e") == "letcond":
                    init = untry(c["init"])
                    if init.get("e") == "index" and hirq.strip(init["i"]).get("e") == "lit":
                        k = hirq.strip(init["i"])["lit"]
                        break
            x = par.get(id(x))
        if k is not None:
            out.setdefault(k, m)
    return out


MATCHERS = [
    ("asca::subrule::SubRule::match_stress", "stress", (), ("stress",), True),
    ("asca::word::Word::alias_match_stress", "stress", (), ("stress",), False),
    ("asca::subrule::SubRule::match_seg_length", "length", ("seg_length",), (), True),
    ("asca::word::Word::alias_match_seg_length", "length", ("seg_length",), (), False),
]


def sup1(ctx):
    r = RuleResult("SUP-1", "match tables of stress / sec.stress / long / overlong equal the manual's three-way tables; alpha arms agree with the binary arms (rule and alias matchers)", floor=64)
    lib = ctx.lib
    Tree.unit = lib
    for path, dom, sl, sf, has_alpha in MATCHERS:
        b = ctx.fn(lib, path)
        if dom == "length":
            sl = length_locals(b)
            if not sl:
                raise AnchorMissing("%s: no local holds the run length (`.seg_length_at(..)`)" % path)
        D = STRESS if dom == "stress" else LENGTH
        short = path.rsplit("::", 1)[-1]
        slots = _binmod_slot_matches(b)
        if set(slots) != {0, 1}:
            # the blocks only locate the report; the tables below are read by evaluation whatever form the code has
            slots = {0: slots.get(0, {"ln": b.line}), 1: slots.get(1, {"ln": b.line})}
        for k in (0, 1):
            for sign in (True, False):
                signs = [None, None]
                signs[k] = sign
                acc = set()
                for s in D:
                    ok, _ = _accepts(b, path, dom, s, tuple(signs), sl, sf)
                    if ok is True:
                        acc.add(s)
                    elif ok is not False:
                        raise AnchorMissing("%s: [%s%s] on %s ends in %s" % (path, SIGN[sign], NAMES[(dom, k)], s, ok))
                want = EXPECT_MATCH[(dom, k, sign)]
                good = acc == want
                r.inst("%s: [%s%s] matches %s" % (short, SIGN[sign], NAMES[(dom, k)], sorted(acc, key=str)), fn_loc(b, slots[k]["ln"]), "ok" if good else "report")
                if not good:
                    r.report("SUP-1|%s|%s%s" % (path, SIGN[sign], NAMES[(dom, k)]), fn_loc(b, slots[k]["ln"]), path,
                             "[%s%s] matches %s %s; the manual's table says %s" % (SIGN[sign], NAMES[(dom, k)], dom, sorted(acc, key=str), sorted(want, key=str)))
                if not has_alpha:
                    continue
                # bound alpha / inverse alpha: `as_binary() == sign` must behave as the binary arm of that sign
                for inv in (False, True):
                    for av in (True, False):
                        eff = (not av) if inv else av
                        acc_a = set()
                        for s in D:
                            t = Tree(path, dom, s, tuple(signs), sl, sf, alpha=av)
                            t.force_alpha = ("InvAlpha" if inv else "Alpha")
                            ok = _accepts_alpha(b, t, k, inv)
                            if ok:
                                acc_a.add(s)
                        want_a = EXPECT_MATCH[(dom, k, eff)]
                        good = acc_a == want_a
                        r.inst("%s: [%sα%s] with α=%s matches %s" % (short, "-" if inv else "", NAMES[(dom, k)], av, sorted(acc_a, key=str)), fn_loc(b, slots[k]["ln"]),
                               "ok" if good else "report")
                        if not good:
                            r.report("SUP-1|%s|%sα%s|bound=%s" % (path, "-" if inv else "", NAMES[(dom, k)], av), fn_loc(b, slots[k]["ln"]), path,
                                     "[%sα%s] with α bound to %s matches %s, but [%s%s] matches %s" % ("-" if inv else "", NAMES[(dom, k)], av, sorted(acc_a, key=str),
                                                                                                    SIGN[eff], NAMES[(dom, k)], sorted(want_a, key=str)))
                    # capture: an unbound alpha stores whether the state is in the positive set (inverted for -α)
                    cap = {}
                    for s in D:
                        t = Tree(path, dom, s, tuple(signs), sl, sf, alpha=None)
                        _accepts_alpha(b, t, k, inv)
                        cap[s] = t.captured
                    pos_set = EXPECT_MATCH[(dom, k, True)]
                    want_c = {s: ((s in pos_set) != inv) for s in D}
                    good = cap == want_c
                    r.inst("%s: unbound [%sα%s] captures %s" % (short, "-" if inv else "", NAMES[(dom, k)], cap), fn_loc(b, slots[k]["ln"]), "ok" if good else "report")
                    if not good:
                        r.report("SUP-1|%s|%sα%s|capture" % (path, "-" if inv else "", NAMES[(dom, k)]), fn_loc(b, slots[k]["ln"]), path,
                                 "an unbound [%sα%s] captures %s; expected %s (membership in the [+%s] set%s)" % ("-" if inv else "", NAMES[(dom, k)], cap, want_c, NAMES[(dom, k)], ", inverted" if inv else ""))
    return r


def _accepts_alpha(b, t, k, inv):
    """evaluate the Alpha / InvAlpha arm of slot k's `match <ModKind>` with tree t"""
    # the match on ModKind inside `if let Some(_) = xs[k]`
    x = None
    for n in hirq.walk(b.hir["body"]):
        if n["e"] != "if":
            continue
        c = hirq.strip(n["cond"])
        if c.get("e") != "letcond":
            continue
        init = untry(c["init"])
        if init.get("e") == "index" and hirq.strip(init["i"]).get("e") == "lit" and hirq.strip(init["i"])["lit"] == k:
            for mm in hirq.walk(n["then"]):
                if mm["e"] == "match" and (mm.get("sty") or "").lstrip("&") == "asca::parser::ModKind":
                    x = mm
                    break
            if x is not None:
                break
    if x is None:
        raise AnchorMissing("%s: match on ModKind of slot %d not found" % (b.path, k))
    alpha_arm = None
    for arm in x["arms"]:
        if any((p.get("path") or "") == MODKIND + "Alpha" for p in hirq.flat_pats(arm["pat"])):
            alpha_arm = arm
    if alpha_arm is None:
        raise AnchorMissing("%s: no ModKind::Alpha arm for slot %d" % (b.path, k))
    am = None
    for mm in hirq.walk(alpha_arm["body"]):
        if mm["e"] == "match" and (mm.get("sty") or "").lstrip("&") == "asca::parser::AlphaMod":
            am = mm
            break
    if am is None:
        raise AnchorMissing("%s: no match on AlphaMod for slot %d" % (b.path, k))
    want = "asca::parser::AlphaMod::" + ("InvAlpha" if inv else "Alpha")
    arm = None
    for a in am["arms"]:
        if any((p.get("path") or "") == want for p in hirq.flat_pats(a["pat"])):
            arm = a
    if arm is None:
        raise AnchorMissing("%s: no %s arm for slot %d" % (b.path, want, k))
    # locals computed at the top of the function (e.g. `let is_long = seg_length > 1;`) are visible in the arm
    top = hirq.strip(b.hir["body"])
    for st in (top.get("stmts") or []) if top.get("e") == "block" else []:
        if st.get("e") == "let":
            try:
                t.run(st)
            except (AnchorMissing, Reject, Stop):
                pass
    try:
        t.run(arm["body"])
    except Reject:
        return False
    except Stop as s:
        if s.what[0] == "return":
            return t.result is not False
        raise AnchorMissing("%s: alpha arm of slot %d ends in %s" % (b.path, k, s.what[0]))
    return True


RETURNED = {}

SETTERS = [
    ("asca::syll::Syllable::apply_syll_mods", "stress", (), ("stress",)),
    ("asca::word::Word::alias_apply_stress", "stress", (), ("stress",)),
    ("asca::syll::Syllable::apply_supras", "length", ("seg_len",), ()),
]


def _match_table(dom, signs, s):
    return all(signs[k] is None or s in EXPECT_MATCH[(dom, k, signs[k])] for k in (0, 1))


def sup2(ctx):
    r = RuleResult("SUP-2", "set tables of stress / length: the state after setting a modifier combination is matched by that combination; contradictions are errors; alias siblings agree", floor=91)
    lib = ctx.lib
    Tree.unit = lib
    tables = {}
    for path, dom, sl, sf in SETTERS:
        b = ctx.fn(lib, path)
        if dom == "length":
            sl = length_locals(b)
            if not sl:
                raise AnchorMissing("%s: no local holds the run length (`.get_seg_length_at(..)`)" % path)
        D = STRESS if dom == "stress" else LENGTH
        short = path.rsplit("::", 1)[-1]
        tab = {}
        returned = {}
        for signs in itertools.product((None, True, False), repeat=2):
            contradictory = signs == (False, True)
            for s in D:
                t = Tree(path, dom, s, signs, sl, sf)
                outcome = "ok"
                try:
                    # only the part of apply_supras that concerns length: the match on mods.length
                    root = b.hir["body"]
                    if dom == "length":
                        ms = [m for m in hirq.matches(b) if "; 2]" in (m.get("sty") or "") and hirq.strip(m["scrut"]).get("name") == "length"]
                        if len(ms) != 1:
                            raise AnchorMissing("%s: match on mods.length not found" % path)
                        # the statements of the function around that match: the lets before it (run length read, counters)
                        # and counter updates after it; everything else (stress / tone part) belongs to other rules
                        top = root if root.get("e") == "block" else hirq.strip(root)
                        seen_match = False
                        for st in list(top.get("stmts", [])) + ([top["tail"]] if top.get("tail") is not None else []):
                            st0 = st.get("a") if isinstance(st, dict) and st.get("e") == "semi" else st
                            st0 = hirq.strip(st0) if isinstance(st0, dict) else st0
                            if st0 is ms[0] or any(x is ms[0] for x in hirq.walk(st0)):
                                t.run(st0)
                                seen_match = True
                            elif st0.get("e") == "let" and not seen_match:
                                t.run(st0)
                            elif st0.get("e") == "assignop":
                                t.run(st0)
                            elif seen_match and st0 is top.get("tail") or (seen_match and hirq.strip(st0).get("e") == "call" and (hirq.strip(hirq.strip(st0)["f"]).get("path") or "").endswith("Result::Ok")):
                                rv = hirq.strip(hirq.strip(st0)["args"][0]) if hirq.strip(st0).get("e") == "call" else None
                                if rv is not None:
                                    try:
                                        returned[(signs, s)] = t.value(rv)
                                    except AnchorMissing:
                                        returned[(signs, s)] = None
                        if not seen_match:
                            raise AnchorMissing("%s: the match on mods.length is not a top-level statement" % path)
                    else:
                        ms = [m for m in hirq.matches(b) if "; 2]" in (m.get("sty") or "") and hirq.strip(m["scrut"]).get("name") == "stress"]
                        if len(ms) != 1:
                            raise AnchorMissing("%s: match on mods.stress not found" % path)
                        t.run(ms[0])
                except Stop as st:
                    outcome = st.what[0]
                except Reject:
                    outcome = "reject"
                tab[(signs, s)] = (outcome, t.state)
                name = "[%s]" % ", ".join("%s%s" % (SIGN[signs[k]], NAMES[(dom, k)]) for k in (0, 1) if signs[k] is not None)
                if contradictory:
                    good = outcome == "error"
                    r.inst("%s: %s on %s is an error" % (short, name, s), fn_loc(b), "ok" if good else "report")
                    if not good:
                        r.report("SUP-2|%s|contradiction|%s" % (path, s), fn_loc(b), path, "the contradictory combination %s on %s yields %s instead of an error" % (name, s, (outcome, t.state)))
                    continue
                if outcome != "ok" and not (outcome == "return"):
                    r.inst("%s: %s on %s -> %s" % (short, name, s, outcome), fn_loc(b), "report")
                    r.report("SUP-2|%s|%s|%s|outcome" % (path, name, s), fn_loc(b), path, "setting %s on %s ends in %s" % (name, s, outcome))
                    continue
                good = _match_table(dom, signs, t.state)
                if signs == (None, None):
                    good = t.state == s
                exp = EXPECT_SET.get((dom, signs))
                if exp is not None and good:
                    want_state = exp(s)
                    if t.state != want_state:
                        good = False
                        r.report("SUP-2|%s|%s|%s|value" % (path, name, s), fn_loc(b), path,
                                 "setting %s on a %s %s gives %s; the manual says %s" % (name, dom, s, t.state, want_state))
                        r.inst("%s: %s on %s -> %s" % (short, name, s, t.state), fn_loc(b), "report")
                        continue
                r.inst("%s: %s on %s -> %s" % (short, name or "[]", s, t.state), fn_loc(b), "ok" if good else "report")
                if not good:
                    r.report("SUP-2|%s|%s|%s" % (path, name or "[]", s), fn_loc(b), path,
                             "setting %s on a %s %s leaves %s, which %s does not match (manual: a set modifier leaves a state that the same modifier matches)"
                             % (name, dom, s, t.state, name))
        tables[path] = tab
        if dom == "length":
            RETURNED[path] = (returned, {k_: v_ for k_, v_ in tab.items()})
    # alias sibling of the length setter: the length a deromaniser gives a fresh (short) segment
    b = ctx.fn(lib, "asca::word::Word::alias_apply_length")
    rule_tab = tables["asca::syll::Syllable::apply_supras"]
    for signs in itertools.product((None, True, False), repeat=2):
        t = Tree(b.path, "length", 1, signs, (), ())
        outcome = "ok"
        try:
            ms = [m for m in hirq.matches(b) if "; 2]" in (m.get("sty") or "")]
            if not ms:
                raise AnchorMissing("alias_apply_length: match on the length modifiers not found")
            t.run(ms[0])
        except Stop as st:
            outcome = st.what[0]
        name = "[%s]" % ", ".join("%s%s" % (SIGN[signs[k]], NAMES[("length", k)]) for k in (0, 1) if signs[k] is not None)
        ro, rs = rule_tab[(signs, 1)]
        if signs == (False, True):
            good = outcome == "error"
        elif signs == (None, None):
            good = t.result is None and outcome in ("ok", "return")
        else:
            good = outcome in ("ok", "return") and t.result == rs
        r.inst("alias_apply_length: %s gives %s (rule side on a short segment: %s)" % (name or "[]", t.result if outcome != "error" else "error", rs if ro != "error" else "error"), fn_loc(b),
               "ok" if good else "report")
        if not good:
            r.report("SUP-2|alias_apply_length|%s" % (name or "[]"), fn_loc(b), b.path,
                     "a deromaniser output with %s gets length %s, but the same modifiers set on a short segment by a rule give %s" % (name, t.result if outcome != "error" else outcome, rs if ro != "error" else ro))
    # alias stress setter = rule stress setter
    a, c = tables["asca::word::Word::alias_apply_stress"], tables["asca::syll::Syllable::apply_syll_mods"]
    diff = [k for k in a if a[k] != c[k]]
    r.inst("alias_apply_stress and apply_syll_mods have the same table (%d entries)" % len(a), None, "ok" if not diff else "report")
    for (signs, s) in diff[:4]:
        r.report("SUP-2|stress-siblings|%s|%s" % (signs, s), fn_loc(ctx.fn(lib, "asca::word::Word::alias_apply_stress")), "asca::word::Word::alias_apply_stress",
                 "alias_apply_stress gives %s for %s on %s, apply_syll_mods gives %s" % (a[(signs, s)], signs, s, c[(signs, s)]))
    return r


def sup3(ctx):
    """`[αS] > [αS]` for S in long / overlong / stress / sec.stress: what the matcher captures, fed to the setter, must give
    the state back (composition of the extracted capture table with the extracted set table)"""
    r = RuleResult("SUP-3", "copying a suprasegmental through an alpha is the identity: set(capture(state)) = state for long, overlong, stress, sec.stress", floor=12)
    lib = ctx.lib
    Tree.unit = lib
    pairs = [("length", "asca::subrule::SubRule::match_seg_length", ("seg_length",), (), "asca::syll::Syllable::apply_supras", ("seg_len",), (), "length"),
             ("stress", "asca::subrule::SubRule::match_stress", (), ("stress",), "asca::syll::Syllable::apply_syll_mods", (), ("stress",), "stress")]
    for dom, mpath, msl, msf, spath, ssl, ssf, field in pairs:
        mb, sb = ctx.fn(lib, mpath), ctx.fn(lib, spath)
        if dom == "length":
            msl, ssl = length_locals(mb), length_locals(sb)
            if not msl or not ssl:
                raise AnchorMissing("%s / %s: no local holds the run length" % (mpath, spath))
        D = STRESS if dom == "stress" else LENGTH
        ms = [m for m in hirq.matches(sb) if "; 2]" in (m.get("sty") or "") and hirq.strip(m["scrut"]).get("name") == field]
        if len(ms) != 1:
            raise AnchorMissing("%s: match on mods.%s not found" % (spath, field))
        for k in (0, 1):
            for s in D:
                signs = [None, None]
                signs[k] = True
                t = Tree(mpath, dom, s, tuple(signs), msl, msf, alpha=None)
                _accepts_alpha(mb, t, k, False)
                cap = t.captured
                if not isinstance(cap, bool):
                    raise AnchorMissing("%s: the unbound alpha of slot %d captures no boolean on %s" % (mpath, k, s))
                signs[k] = cap
                t2 = Tree(spath, dom, s, tuple(signs), ssl, ssf)
                outcome = "ok"
                try:
                    t2.run(ms[0])
                except Stop as st:
                    outcome = st.what[0]
                ok = outcome == "ok" and t2.state == s
                nm = NAMES[(dom, k)]
                r.inst("[α%s] > [α%s] on %s %s: captures %s, sets %s" % (nm, nm, dom, s, cap, t2.state), fn_loc(sb, ms[0]["ln"]), "ok" if ok else "report")
                if not ok:
                    r.report("SUP-3|%s|%s" % (nm, s), fn_loc(sb, ms[0]["ln"]), spath,
                             "`[α%s] > [α%s]` on a %s %s: the matcher captures α=%s and the setter then gives %s — the rule merely restates its input but changes the word"
                             % (nm, nm, dom, s, cap, t2.state if outcome == "ok" else outcome))
    return r


def sup4(ctx):
    """the segment-level suprasegmental matcher is a conjunction: every return that can accept has consulted stress, length and tone"""
    from facts import callee_path
    r = RuleResult("SUP-4", "every accepting return of the segment-level suprasegmental matchers is dominated by the stress matcher, the length matcher and the test of `mods.tone`", floor=3)
    lib = ctx.lib
    specs = [("asca::subrule::SubRule::match_supr_mod_seg", ("asca::subrule::SubRule::match_stress", "asca::subrule::SubRule::match_seg_length")),
             ("asca::word::Word::alias_match_supr_mod_seg", ("asca::word::Word::alias_match_stress", "asca::word::Word::alias_match_seg_length"))]
    for path, required in specs:
        b = ctx.fn(lib, path)
        cfg = b.cfg
        calls = {}
        for bi, t in b.calls():
            cp = callee_path(t) or ""
            if cp in required:
                calls.setdefault(cp, []).append(bi)
        for q in required:
            if q not in calls:
                r.report("SUP-4|%s|%s|missing" % (path, q.rsplit("::", 1)[-1]), fn_loc(b), path, "%s no longer consults %s" % (path.rsplit("::", 1)[-1], q.rsplit("::", 1)[-1]))
        # the test of the tone modifier: a discriminant read of a place ending in the field `tone`
        tone_sw = []
        for bi, blk in enumerate(b.blocks):
            for s in blk["s"]:
                if s["k"] == "assign" and s["rv"].get("k") == "discr":
                    root_l = s["rv"]["pl"]["l"]
                    names = [p.get("n") for p in s["rv"]["pl"]["p"] if isinstance(p, dict)]
                    if "tone" in names or _derives_from_field(b, root_l, "tone"):
                        tone_sw.append(bi)
        if not tone_sw:
            raise AnchorMissing("%s: no test of `mods.tone` found" % path)
        # accepting definitions of the return place
        k = 0
        for bi, blk in enumerate(b.blocks):
            if blk.get("cleanup") or bi not in cfg.reach:
                continue
            defs = []
            for s in blk["s"]:
                if s["k"] == "assign" and s["lhs"]["l"] == 0 and not s["lhs"]["p"]:
                    defs.append(s["rv"])
            t = blk["t"]
            if t["k"] == "call" and t["dest"]["l"] == 0 and not t["dest"]["p"]:
                cp = callee_path(t) or ""
                if "from_residual" in cp:
                    continue
                defs.append({"k": "call"})
            for d in defs:
                if d.get("k") == "agg":
                    if d.get("variant") == "Err":
                        continue
                    ops = d.get("ops") or []
                    if ops and ops[0].get("k") == "const" and ops[0].get("bool") is False:
                        continue
                missing = [q.rsplit("::", 1)[-1] for q in required if q in calls and not any(cfg.dominates(c, bi) for c in calls[q])]
                if not any(cfg.dominates(c, bi) for c in tone_sw):
                    missing.append("the test of mods.tone")
                line = None
                for s in blk["s"]:
                    if s["k"] == "assign" and s["lhs"]["l"] == 0:
                        line = s.get("loc")
                line = line or t.get("loc") or b.loc
                r.inst("%s: accepting return #%d has consulted stress, length and tone" % (path.rsplit("::", 1)[-1], k), ":".join(line.split(":")[:2]), "ok" if not missing else "report")
                if missing:
                    r.report("SUP-4|%s|return#%d" % (path, k), ":".join(line.split(":")[:2]), path,
                             "this return can accept the segment without %s having been consulted: a modifier of that tier in the same matrix is ignored" % " and ".join(missing))
                k += 1
    return r


def _derives_from_field(b, l, field, depth=0):
    if depth > 6:
        return False
    for blk in b.blocks:
        for s in blk["s"]:
            if s["k"] == "assign" and s["lhs"]["l"] == l and not s["lhs"]["p"]:
                rv = s["rv"]
                pl = rv.get("pl") or (rv.get("op") or {}).get("pl")
                if pl:
                    if any(isinstance(p, dict) and p.get("n") == field for p in pl["p"]):
                        return True
                    if _derives_from_field(b, pl["l"], field, depth + 1):
                        return True
        t = blk["t"]
        if t["k"] == "call" and t["dest"]["l"] == l and not t["dest"]["p"]:
            for a in t["args"]:
                if a.get("k") in ("copy", "move"):
                    if any(isinstance(p, dict) and p.get("n") == field for p in a["pl"]["p"]) or _derives_from_field(b, a["pl"]["l"], field, depth + 1):
                        return True
    return False


def sup5(ctx):
    """[tone:n] matches and sets the whole tone"""
    from engine_err import expr_name
    r = RuleResult("SUP-5", "[tone:n] matches by equality with the syllable's whole tone and sets the whole tone (match ∘ set closed)", floor=3)
    lib = ctx.lib
    mt = ctx.fn(lib, "asca::subrule::SubRule::match_tone")
    body = hirq.strip(mt.hir["body"])
    ok = False
    if body.get("e") == "binary" and body["op"] == "Eq":
        a, b_ = expr_name(body["a"]), expr_name(body["b"])
        names = {a, b_}
        ok = ("local", mt.param_names[1]) in names and any(x[0] == "field" and x[2] == "tone" and x[1] == ("local", mt.param_names[2]) for x in names)
    r.inst("match_tone is `*tone == syll.tone`", fn_loc(mt), "ok" if ok else "report")
    if not ok:
        r.report("SUP-5|match_tone", fn_loc(mt), mt.path, "match_tone is not plain equality between the modifier's tone and the syllable's whole tone")
    am = ctx.fn(lib, "asca::syll::Syllable::apply_syll_mods")
    writes = [n for n in hirq.walk(am.hir["body"]) if n["e"] == "assign" and hirq.strip(n["lhs"]).get("e") == "field" and hirq.strip(n["lhs"])["name"] == "tone"]
    par = hirq.parent_map(am.hir["body"])
    ok = len(writes) == 1
    if ok:
        w = writes[0]
        # guarded by `if let Some(t) = &mods.tone` and assigning that t
        x = par.get(id(w))
        guard = None
        while x is not None:
            if x.get("e") == "if" and hirq.strip(x["cond"]).get("e") == "letcond":
                guard = hirq.strip(x["cond"])
                break
            x = par.get(id(x))
        ok = guard is not None and any(m["e"] == "field" and m["name"] == "tone" for m in hirq.walk(guard["init"]))
        if ok:
            bound = {q["name"] for q in hirq.walk_pats(guard["pat"]) if q.get("p") == "bind"}
            rhs = expr_name(w["rhs"])
            ok = rhs[0] == "local" and rhs[1] in bound
    r.inst("apply_syll_mods writes `.tone` once, from the Some(t) of mods.tone, unmodified", fn_loc(am), "ok" if ok else "report")
    if not ok:
        r.report("SUP-5|apply_syll_mods|tone", fn_loc(am), am.path, "the tone written by apply_syll_mods is not exactly the value of `mods.tone` (or is written more than once / unguarded)")
    al = ctx.fn(lib, "asca::word::Word::alias_match_supr_mod_seg")
    cmps = [n for n in hirq.walk(al.hir["body"]) if n["e"] == "binary" and n["op"] in ("Ne", "Eq") and any(
        m["e"] == "field" and m["name"] == "tone" for m in hirq.walk(n))]
    ok = len(cmps) == 1 and cmps[0]["op"] == "Ne" and any(x["e"] == "ret" for x in hirq.walk(par_if_then(al, cmps[0])))
    r.inst("alias_match_supr_mod_seg rejects iff the tone differs from the syllable's tone", fn_loc(al), "ok" if ok else "report")
    if not ok:
        r.report("SUP-5|alias_match_supr_mod_seg|tone", fn_loc(al), al.path, "the alias matcher does not reject exactly when `*t != syll.tone`")
    return r


def par_if_then(b, node):
    par = hirq.parent_map(b.hir["body"])
    x = par.get(id(node))
    while x is not None:
        if x.get("e") == "if":
            return x["then"]
        x = par.get(id(x))
    return {}


def sup6(ctx):
    """Syllable::apply_supras returns the number of run copies it inserted (+) or removed (-): every caller in SubRule moves
    its scan cursor / its per-syllable length bookkeeping by that number. If the returned number differs from what was
    really done to `segments`, the cursor lands inside the lengthened run (the rule re-matches its own output: the run
    grows forever) or skips a segment."""
    r = RuleResult("SUP-6", "Syllable::apply_supras returns exactly the change it made to the run: returned length change == run length after - run length before, for every modifier combination and every run length", floor=24)
    path = "asca::syll::Syllable::apply_supras"
    b = ctx.fn(ctx.lib, path)
    sup2(ctx)                       # fills RETURNED (same evaluation as the set table)
    if path not in RETURNED:
        raise AnchorMissing("SUP-6: the length table of apply_supras was not evaluated")
    returned, tab = RETURNED[path]
    for (signs, s), (outcome, after) in sorted(tab.items(), key=str):
        if outcome not in ("ok", "return"):
            continue
        name = "[%s]" % ", ".join("%s%s" % (SIGN[signs[k]], NAMES[("length", k)]) for k in (0, 1) if signs[k] is not None)
        got = returned.get((signs, s), "missing")
        want = after - s
        ok = got == want
        r.inst("apply_supras: %s on a run of %d: run becomes %d, returned change %s" % (name or "[]", s, after, got), fn_loc(b), "ok" if ok else "report")
        if not ok:
            r.report("SUP-6|apply_supras|%s|%d" % (name or "[]", s), fn_loc(b), path,
                     "setting %s on a run of %d changes the run to %d copies but apply_supras returns %s instead of %+d: the callers advance their cursor by the returned number, so the scan resumes inside the new run (the rule matches its own output again and the run grows without end) or skips a segment"
                     % (name, s, after, got, want))
    return r
