"""POL engine: polarity discipline of the +/- and alpha / inverse-alpha arms.

Every `match` on `BinMod` (Positive / Negative) and on `AlphaMod` (Alpha / InvAlpha) in the library is a pair of sibling
implementations that must be *mirror images* in their polarity-bearing atoms (bool literals, == / !=, `x` / `!x`,
is_some / is_none) and identical otherwise.

POL-1a  mirror:       when the two arms have the same skeleton, their polarity vectors differ
                      (`true` left in the negative arm, a forgotten `!`: both signs then behave identically)
POL-1b  orientation:  at the sites whose meaning is fixed by the accessors (third argument of set_feat / feat_match,
                      `Alpha::Feature(f != 0)`), the positive arm passes the positive polarity
"""
import json

import hirq
from core import AnchorMissing, RuleResult, fn_loc

BINMOD = "asca::parser::BinMod"
ALPHAMOD = "asca::parser::AlphaMod"
DROP = {"ln", "hid", "exp", "loc", "rk", "src"}


class Canon:
    def __init__(self):
        self.pol = []
        self.names = {}

    def name(self, n, hid=None):
        k = hid if hid is not None else n
        if k not in self.names:
            self.names[k] = "v%d" % len(self.names)
        return self.names[k]

    def pat(self, p):
        if not isinstance(p, dict):
            return p
        if p.get("p") == "bind":
            return {"p": "bind", "name": self.name(p.get("name"), p.get("hid")), "sub": self.pat(p.get("sub")) if p.get("sub") else None}
        out = {}
        for k, v in p.items():
            if k in DROP or k == "ty":
                continue
            if isinstance(v, dict):
                out[k] = self.pat(v)
            elif isinstance(v, list):
                out[k] = [self.pat(x) if isinstance(x, dict) else ([self.pat(y) if isinstance(y, dict) else y for y in x] if isinstance(x, list) else x) for x in v]
            else:
                out[k] = v
        return out

    def expr(self, e):
        if isinstance(e, list):
            return [self.expr(x) for x in e]
        if not isinstance(e, dict):
            return e
        if "p" in e and "e" not in e:
            return self.pat(e)
        k = e.get("e")
        if k == "lit" and e.get("lk") == "bool":
            self.pol.append(bool(e["lit"]))
            return {"e": "BOOL"}
        if k == "binary" and e.get("op") in ("Eq", "Ne"):
            self.pol.append(e["op"] == "Eq")
            return {"e": "CMP", "a": self.expr(e["a"]), "b": self.expr(e["b"])}
        if k == "unary" and e.get("op") == "Not":
            inner = hirq.strip(e["a"])
            if inner.get("e") in ("path", "mcall", "call", "field") and not (inner.get("e") == "mcall" and inner.get("name") in ("is_some", "is_none")):
                self.pol.append(False)
                return {"e": "SLOT", "x": self._plain(inner)}
            self.pol.append(False)
            r = self.expr(inner)
            return {"e": "NEG", "x": r}
        if k == "mcall" and e.get("name") in ("is_some", "is_none") and not e.get("args"):
            self.pol.append(e["name"] == "is_some")
            return {"e": "ISSOME", "recv": self.expr(e["recv"])}
        if k in ("path", "mcall", "call", "field") and e.get("ty") == "bool" and not e.get("exp"):
            self.pol.append(True)
            return {"e": "SLOT", "x": self._plain(e)}
        return self._plain(e)

    def _plain(self, e):
        if not isinstance(e, dict):
            return e
        out = {}
        if e.get("e") == "path" and "local" in e:
            return {"e": "path", "local": self.name(e["local"], e.get("hid"))}
        for k, v in e.items():
            if k in DROP or k in ("ty", "rty", "sty", "of_ty"):
                continue
            if k == "pat" or k == "pats":
                out[k] = self.pat(v) if isinstance(v, dict) else [self.pat(x) for x in v]
            elif isinstance(v, (dict, list)):
                out[k] = self.expr(v)
            else:
                out[k] = v
        return out


def _arm_of(m, enum, variant):
    for a in m["arms"]:
        for p in hirq.flat_pats(a["pat"]):
            if (p.get("path") or "") == "%s::%s" % (enum, variant):
                return a
    return None


def _parity(e, lets=None, depth=0):
    """number of negations of a boolean argument (mod 2), or None when the expression is not a recognised form"""
    e = hirq.strip(e)
    if e.get("e") == "lit" and e.get("lk") == "bool":
        return 0 if e["lit"] else 1
    if e.get("e") == "unary" and e.get("op") == "Not":
        p = _parity(e["a"], lets, depth + 1)
        return None if p is None else 1 - p
    if e.get("e") == "binary" and e.get("op") in ("Ne", "Eq"):
        sides = [hirq.strip(e["a"]), hirq.strip(e["b"])]
        if any(s.get("e") == "lit" and s.get("lit") == 0 for s in sides):
            return 0 if e["op"] == "Ne" else 1
        return None
    if e.get("e") in ("path", "mcall", "field", "call"):
        return 0
    return None


def pol1(ctx):
    r = RuleResult("POL-1", "the Positive/Negative arms of every match on BinMod and the Alpha/InvAlpha arms of every match on AlphaMod are polarity mirrors; set_feat / feat_match / Alpha::Feature receive the arm's polarity", floor=58)
    lib = ctx.lib
    n_match = n_cmp = n_site = 0
    for b in lib.bodies:
        if not b.hir or b.in_test_mod() or b.exp:
            continue
        k_in_fn = {}
        for m in hirq.matches(b):
            sty = (m.get("sty") or "").lstrip("&").replace("mut ", "")
            if sty == BINMOD:
                enum, pos, neg = BINMOD, "Positive", "Negative"
            elif sty == ALPHAMOD:
                enum, pos, neg = ALPHAMOD, "Alpha", "InvAlpha"
            else:
                continue
            ap, an = _arm_of(m, enum, pos), _arm_of(m, enum, neg)
            if ap is None or an is None:
                continue
            n_match += 1
            kk = k_in_fn.get(enum, 0)
            k_in_fn[enum] = kk + 1
            short = enum.rsplit("::", 1)[-1]
            # ---- (a) mirror
            cp, cn = Canon(), Canon()
            sp = json.dumps({"pat": cp.pat(ap["pat"]), "body": cp.expr(ap["body"])}, sort_keys=True, default=str)
            sn = json.dumps({"pat": cn.pat(an["pat"]), "body": cn.expr(an["body"])}, sort_keys=True, default=str)
            sp = sp.replace("::%s" % pos, "::ARM")
            sn = sn.replace("::%s" % neg, "::ARM")
            if sp == sn and cp.pol:
                n_cmp += 1
                diff = [i for i, (x, y) in enumerate(zip(cp.pol, cn.pol)) if x != y]
                ok = bool(diff)
                r.inst("%s: %s match #%d: arms have one skeleton and %d polarity atoms, %d of them mirrored" % (b.path, short, kk, len(cp.pol), len(diff)),
                       fn_loc(b, m["ln"]), "ok" if ok else "report")
                if not ok:
                    r.report("POL-1a|%s|%s#%d" % (b.path, short, kk), fn_loc(b, m["ln"]), b.path,
                             "the %s and %s arms are the same code with the same polarity in all %d polarity atoms (true/false, ==/!=, x/!x, is_some/is_none): the two signs behave identically"
                             % (pos, neg, len(cp.pol)))
            else:
                r.inst("%s: %s match #%d: arms differ in structure (no mirror verdict)" % (b.path, short, kk), fn_loc(b, m["ln"]), "ok", nontrivial=False)
            # ---- (b) orientation at the accessor sites
            for arm, want, label in ((ap, 0, pos), (an, 1, neg)):
                j = 0
                for n in hirq.walk(arm["body"]):
                    arg = None
                    what = None
                    if n["e"] == "mcall" and n["name"] in ("set_feat", "feat_match") and len(n["args"]) == 3 and (n.get("def") or "").startswith("asca::seg::Segment::"):
                        arg, what = n["args"][2], n["name"]
                    elif n["e"] == "call" and (hirq.strip(n["f"]).get("path") or "") in ("asca::rule::Alpha::Feature",) and n["args"]:
                        a0 = hirq.strip(n["args"][0])
                        if a0.get("e") in ("binary", "unary", "lit"):
                            arg, what = n["args"][0], "Alpha::Feature"
                    if arg is None:
                        continue
                    # a nested match on the other enum owns this site
                    par = _parity(arg)
                    if par is None:
                        continue
                    # skip sites that sit inside a nested BinMod/AlphaMod match of the arm (they are judged there)
                    if _inside_nested(arm["body"], n):
                        continue
                    n_site += 1
                    ok = par == want
                    r.inst("%s: %s arm passes %s polarity to %s" % (b.path, label, "positive" if par == 0 else "negative", what), fn_loc(b, n["ln"]), "ok" if ok else "report")
                    if not ok:
                        r.report("POL-1b|%s|%s#%d|%s|%s#%d" % (b.path, short, kk, label, what, j), fn_loc(b, n["ln"]), b.path,
                                 "the %s arm calls %s with the %s polarity: `[%sF]` is matched / applied with the opposite sign" % (
                                     label, what, "positive" if par == 0 else "negative", {"Positive": "+", "Negative": "-", "Alpha": "α", "InvAlpha": "-α"}[label]))
                    j += 1
    # ---- (c) one arm for both signs: an or-pattern that names both variants of a polarity enum at the same place
    n_or = 0
    for b in lib.bodies:
        if not b.hir or b.in_test_mod() or b.exp:
            continue
        k = 0
        for m in hirq.matches(b):
            for arm in m["arms"]:
                for op in [q for q in hirq.walk_pats(arm["pat"]) if q.get("p") == "or"]:
                    tops = set()
                    for alt in op.get("pats", []):
                        a0 = alt
                        while isinstance(a0, dict) and a0.get("p") == "ref":
                            a0 = a0.get("sub")
                        tops.add((a0 or {}).get("path") or "")
                    for enum, pos, neg in ((BINMOD, "Positive", "Negative"), (ALPHAMOD, "Alpha", "InvAlpha")):
                        if {"%s::%s" % (enum, pos), "%s::%s" % (enum, neg)} <= tops:
                            n_or += 1
                            inert = hirq.arm_is_pure_panic(arm["body"]) or hirq.strip(arm["body"]).get("e") in ("tup", "lit", "ret") or (
                                hirq.strip(arm["body"]).get("e") == "call" and (hirq.strip(hirq.strip(arm["body"])["f"]).get("path") or "").endswith("Result::Err"))
                            r.inst("%s: one arm for `%s | %s` (%s)" % (b.path, pos, neg, "no effect in it" if inert else "with an effect"), fn_loc(b, arm.get("ln") or m["ln"]), "ok" if inert else "report")
                            if not inert:
                                r.report("POL-1c|%s|%s#%d" % (b.path, enum.rsplit("::", 1)[-1], k), fn_loc(b, arm.get("ln") or m["ln"]), b.path,
                                         "one arm handles `%s` and `%s` alike: the %s sign is dropped -- `[-αF]` behaves as `[αF]`" % (pos, neg, "inverse" if enum == ALPHAMOD else "negative"))
                            k += 1
    r.analysed = {"matches": n_match, "mirror_comparisons": n_cmp, "orientation_sites": n_site, "merged_sign_arms": n_or}
    if n_match < 30 or n_cmp < 8 or n_site < 12:
        raise AnchorMissing("POL-1: %d matches, %d mirror comparisons, %d orientation sites (expected >= 30 / 8 / 12)" % (n_match, n_cmp, n_site))
    return r


def _inside_nested(arm_body, node):
    for m in hirq.walk(arm_body):
        if m["e"] == "match":
            sty = (m.get("sty") or "").lstrip("&").replace("mut ", "")
            if sty in (BINMOD, ALPHAMOD):
                if any(x is node for x in hirq.walk(m)):
                    return True
    return False
