//! Positive controls: one deliberately violating instance per generic analysis core of /verif/rules.
//! This crate is compiled by the same fact extractor on every run; each rule must FIRE here.
//! Nothing in this crate is ever executed.
#![allow(dead_code, unused_variables, unused_mut, clippy::all)]

use std::cell::RefCell;
use std::collections::HashMap;
use std::sync::Mutex;

// ---- PUR-1: ambient input reachable from the root
pub fn pur1_root(x: u32) -> u32 {
    pur1_helper(x)
}
fn pur1_helper(x: u32) -> u32 {
    if std::env::var("POSCONTROL").is_ok() { x + 1 } else { x }
}

// ---- PUR-2: iteration order of a hash map escapes into a Vec (bad) / is sorted away (good)
pub fn pur2_bad(m: &HashMap<String, u32>) -> Vec<String> {
    m.iter().map(|(k, _)| k.clone()).collect()
}
pub fn pur2_good(m: &HashMap<String, u32>) -> Vec<String> {
    let mut v: Vec<String> = m.keys().cloned().collect();
    v.sort();
    v
}
pub fn pur2_first(m: &HashMap<String, u32>) -> Option<String> {
    m.keys().next().cloned()
}

// ---- PUR-3: interior-mutable global
static PUR3_CACHE: Mutex<Vec<u32>> = Mutex::new(Vec::new());
pub fn pur3_use(x: u32) -> usize {
    let mut g = PUR3_CACHE.lock().unwrap();
    g.push(x);
    g.len()
}

// ---- PAN-1: a guard held across a call that borrows the same cell mutably
pub struct Cells {
    pub table: RefCell<HashMap<u32, u32>>,
}
impl Cells {
    fn insert(&self, k: u32) {
        self.table.borrow_mut().insert(k, k);
    }
    pub fn pan1_bad(&self, k: u32) -> bool {
        let g = self.table.borrow();
        if g.contains_key(&k) {
            return true;
        }
        self.insert(k);
        false
    }
    pub fn pan1_good(&self, k: u32) -> bool {
        if self.table.borrow().contains_key(&k) {
            return true;
        }
        self.insert(k);
        false
    }
}

// ---- CLI-1: same-typed arguments crossed
fn cli1_callee(rules_path: Option<String>, alias_path: Option<String>) -> usize {
    rules_path.map(|s| s.len()).unwrap_or(0) + alias_path.map(|s| s.len() * 2).unwrap_or(0)
}
pub fn cli1_bad(rules: Option<String>, alias: Option<String>) -> usize {
    cli1_callee(alias, rules)
}
pub fn cli1_good(rules: Option<String>, alias: Option<String>) -> usize {
    cli1_callee(rules, alias)
}

// ---- ERR-1: a stub body
pub fn err1_stub(_x: u32) -> String {
    unreachable!()
}
pub fn err1_real(x: u32) -> String {
    x.to_string()
}

// ---- FLW guard core: a write reachable without the check (bad) / only on the true edge (good)
fn check(v: &[u32]) -> Result<bool, ()> { Ok(!v.is_empty()) }
fn write(v: &mut Vec<u32>) { v.push(1) }
pub fn flw_bad(v: &mut Vec<u32>) -> Result<(), ()> {
    let ok = check(v)?;
    write(v);
    if !ok { return Ok(()) }
    Ok(())
}
pub fn flw_good(v: &mut Vec<u32>) -> Result<(), ()> {
    if !check(v)? { return Ok(()) }
    write(v);
    Ok(())
}

// ---- SYN-1 core: one synonym tested, the other forgotten
#[derive(Clone, Copy, PartialEq, Eq)]
pub enum Tok { Pipe, DubSlash, Eol }
pub struct P { cur: Tok }
impl P {
    fn peek_expect(&self, k: Tok) -> bool { self.cur == k }
    pub fn syn1_bad(&self) -> bool { self.peek_expect(Tok::Pipe) || self.peek_expect(Tok::Eol) }
    pub fn syn1_good(&self) -> bool { self.peek_expect(Tok::Pipe) || self.peek_expect(Tok::DubSlash) }
}

// ---- PAN-3 core: a producer puts a kind into a container whose consumer panics on it
pub enum El { A, B, Set(Vec<It>) }
pub struct It { pub kind: El }
impl It { pub fn new(kind: El) -> It { It { kind } } }
pub struct Gram;
impl Gram {
    fn get_a(&self) -> Option<It> { Some(It::new(El::A)) }
    fn get_b(&self) -> Option<It> { Some(It::new(El::B)) }
    pub fn get_set(&self) -> It {
        let mut v = Vec::new();
        if let Some(x) = self.get_a() { v.push(x) }
        if let Some(x) = self.get_b() { v.push(x) }
        It::new(El::Set(v))
    }
}
pub fn consume(it: &It) -> u32 {
    match &it.kind {
        El::Set(items) => {
            let mut n = 0;
            for i in items {
                match &i.kind {
                    El::A => n += 1,
                    El::B => unreachable!(),
                    El::Set(_) => unreachable!(),
                }
            }
            n
        }
        _ => 0,
    }
}

// ---- BIT controls: a packed two-field word; `bitbad::set_b` forgets to clear the old payload
pub mod bitgood {
    pub struct Pk(Option<u8>);
    impl Pk {
        pub fn a_is_some(&self) -> bool { match self.0 { Some(x) => x & 0x80 == 0x80, None => false } }
        pub fn b_is_some(&self) -> bool { match self.0 { Some(x) => x & 0x40 == 0x40, None => false } }
        pub fn get_a(&self) -> Option<u8> { if self.a_is_some() { Some((self.0.unwrap() >> 3) & 0b111) } else { None } }
        pub fn get_b(&self) -> Option<u8> { if self.b_is_some() { Some(self.0.unwrap() & 0b111) } else { None } }
        pub fn set_a(&mut self, m: Option<u8>) {
            match m {
                Some(m) => if let Some(d) = &mut self.0 { *d |= 0x80; *d = (*d & !0x38) | ((m & 7) << 3); } else { self.0 = Some(0x80 | ((m & 7) << 3)) },
                None => if let Some(d) = &mut self.0 { *d &= !(0x80 | 0x38) },
            }
            if matches!(self.0, Some(d) if d & 0xC0 == 0) { self.0 = None; }
        }
        pub fn set_b(&mut self, m: Option<u8>) {
            match m {
                Some(m) => if let Some(d) = &mut self.0 { *d |= 0x40; *d = (*d & !0x07) | (m & 7); } else { self.0 = Some(0x40 | (m & 7)) },
                None => if let Some(d) = &mut self.0 { *d &= !(0x40 | 0x07) },
            }
            if matches!(self.0, Some(d) if d & 0xC0 == 0) { self.0 = None; }
        }
    }
}
pub mod bitbad {
    pub struct Pk(Option<u8>);
    impl Pk {
        pub fn a_is_some(&self) -> bool { match self.0 { Some(x) => x & 0x80 == 0x80, None => false } }
        pub fn b_is_some(&self) -> bool { match self.0 { Some(x) => x & 0x40 == 0x40, None => false } }
        pub fn get_a(&self) -> Option<u8> { if self.a_is_some() { Some((self.0.unwrap() >> 3) & 0b111) } else { None } }
        pub fn get_b(&self) -> Option<u8> { if self.b_is_some() { Some(self.0.unwrap() & 0b111) } else { None } }
        pub fn set_a(&mut self, m: Option<u8>) {
            match m {
                Some(m) => if let Some(d) = &mut self.0 { *d |= 0x80; *d = (*d & !0x38) | ((m & 7) << 3); } else { self.0 = Some(0x80 | ((m & 7) << 3)) },
                None => if let Some(d) = &mut self.0 { *d &= !0x80 },
            }
            if matches!(self.0, Some(0)) { self.0 = None; }
        }
        pub fn set_b(&mut self, m: Option<u8>) {
            match m {
                Some(m) => if let Some(d) = &mut self.0 { *d |= 0x40; *d |= m & 7; } else { self.0 = Some(0x40 | (m & 7)) },
                None => if let Some(d) = &mut self.0 { *d &= !(0x40 | 0x07) },
            }
            if matches!(self.0, Some(0)) { self.0 = None; }
        }
    }
}

// ---- PAN-7 controls: slicing a string at a character column vs at its own byte offset
pub fn pan7_bad(text: &str, arrows: &str) -> String {
    let indent = arrows.chars().take_while(|c| *c == ' ').count();
    text[..indent].to_string()
}
pub fn pan7_good(text: &str) -> String {
    let cut = text.find('>').unwrap_or(text.len());
    text[..cut].to_string()
}

// ---- SYN-2 core: a cursor rewind re-read through a history-dependent stepper (bad) / restored directly (good)
#[derive(Clone, Copy, PartialEq, Eq)]
pub enum K2 { A, Comment, Eol }
#[derive(Clone)]
pub struct Tk2Token { pub kind: K2 }
pub struct Cur2 { list: Vec<Tk2Token>, at: usize, tok: Tk2Token }
impl Cur2 {
    fn step(&mut self) {
        self.at += 1;
        self.tok = if self.at < self.list.len() && self.tok.kind != K2::Comment { self.list[self.at].clone() } else { Tk2Token { kind: K2::Eol } };
    }
    pub fn syn2_bad(&mut self, mark: usize) -> bool {
        self.step();
        if self.tok.kind != K2::A { self.at = mark - 1; self.step(); return false }
        true
    }
    pub fn syn2_good(&mut self, mark: usize) -> bool {
        self.step();
        if self.tok.kind != K2::A { self.at = mark; self.tok = self.list[mark].clone(); return false }
        true
    }
}


// ---- SYN-6 controls: a reader that looks behind its cursor (bad) / at and ahead of it (good)
pub struct Rd6;
impl Rd6 {
    pub fn syn6_bad(txt: &[char], i: usize) -> bool { i > 0 && txt[i - 1] == ':' }
    pub fn syn6_good(txt: &[char], i: usize) -> bool { txt[i] == ':' || txt.get(i + 1) == Some(&':') }
}


// ---- SUP-10 controls: a tone modifier read by defaulting it (bad) / by `if let Some` (good)
pub struct Tn10;
impl Tn10 {
    pub fn sup10_bad(tone: &Option<u16>, syll_tone: u16) -> bool { let t = tone.unwrap_or_default(); t == 0 || t == syll_tone }
    pub fn sup10_good(tone: &Option<u16>, syll_tone: u16) -> bool { if let Some(t) = tone.as_ref() { *t == syll_tone } else { true } }
}


// ---- PAN-18 controls: a backward walk without / with a lower bound
pub struct Bw18;
impl Bw18 {
    pub fn pan18_bad(xs: &[u8], last: u8) -> usize { let mut i = xs.len() - 1; while xs[i - 1] == last { i -= 1; } i }
    pub fn pan18_good(xs: &[u8], last: u8) -> usize { let mut i = xs.len() - 1; while i > 0 && xs[i - 1] == last { i -= 1; } i }
}
