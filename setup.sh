#!/bin/bash
# Builds the fact extractor and warms the dependency target dir. Offline.
set -euo pipefail
cd /verif/driver
export CARGO_NET_OFFLINE=true
cargo +nightly build --release --offline
cd /verif
# warm: one extraction over the current tree (also validates the toolchain)
python3 - <<'PY'
import sys
sys.path.insert(0, "/verif/rules")
import facts
d = facts.ensure_facts(facts.REPO)
print("facts:", d)
PY
