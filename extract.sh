#!/bin/bash
# usage: extract.sh <repo_dir> <out_dir> <target_dir> <nonce> [--tests]
# Runs the fact extractor over <repo_dir> (cargo +nightly check with the driver as
# RUSTC_WORKSPACE_WRAPPER) and writes fact files into <out_dir>.
set -euo pipefail
REPO="$1"; OUT="$2"; TGT="$3"; NONCE="$4"; TESTS="${5:-}"
DRV=/verif/driver/target/release/asca-facts
[ -x "$DRV" ] || { echo "extract: driver not built ($DRV); run setup" >&2; exit 3; }
SYSROOT=$(rustc +nightly --print sysroot)
mkdir -p "$OUT" "$TGT"
# cargo's freshness cache would skip the wrapper for workspace members: drop their fingerprints
rm -rf "$TGT"/debug/.fingerprint/asca-* 2>/dev/null || true
EXTRA=""
if [ "$TESTS" = "--tests" ]; then EXTRA="--profile test"; fi
cd "$REPO"
export CARGO_NET_OFFLINE=true
LD_LIBRARY_PATH="$SYSROOT/lib" \
RUSTFLAGS="-Zmir-opt-level=0 -Awarnings" \
RUSTC_WORKSPACE_WRAPPER="$DRV" \
CARGO_TARGET_DIR="$TGT" \
ASCA_FACTS_OUT="$OUT" ASCA_FACTS_NONCE="$NONCE" \
cargo +nightly check --offline --lib --bins $EXTRA -q
