#!/bin/bash
# usage: tools/try_patch.sh <patch-file> <Cxx> [<Cxx>...]
# Applies a patch to a scratch copy of /repo's current tree (outside /repo and /verif),
# runs the given checks against it and removes the copy. Never touches /repo or evidence/.
set -u
PATCH="$(readlink -f "$1")"; shift
SCR=$(mktemp -d "${TMPDIR:-/tmp}/asca-mut-XXXXXX")
trap 'rm -rf "$SCR"' EXIT
rsync -a --exclude target --exclude .git /repo/ "$SCR/repo/"
( cd "$SCR/repo" && patch -p1 -s --no-backup-if-mismatch < "$PATCH" ) || { echo "PATCH-DOES-NOT-APPLY $PATCH"; exit 4; }
rc=0
for id in "$@"; do
  ASCA_REPO="$SCR/repo" VERIF_EVIDENCE_DIR="$SCR/ev" VERIF_REPLAY_DIR="$SCR/replay" /verif/check "$id" quick | sed "s|$SCR/repo/||g" || true
  r=${PIPESTATUS[0]}
  [ "$r" != 0 ] && rc=1
  if [ -d "$SCR/replay/$id" ]; then for f in "$SCR/replay/$id"/*.json; do [ -f "$f" ] && python3 -c "
import json,sys
d=json.load(open('$f')); print('   REPORT', d.get('rule'), d.get('loc'), '|', d.get('msg', d.get('reason')))"; done; fi
done
exit $rc
