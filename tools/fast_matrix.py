#!/usr/bin/env python3
"""Every claimed property's rules against every seeded change / mutant, one extraction and one process per patch
(each rule function runs once per patch and is shared by the properties that use it).
usage: tools/fast_matrix.py [seeded|mutants|refactorings] [pattern]     -> /verif/<which>/MATRIX.json
       (refactorings = behaviour-preserving edits: every check must stay SILENT on them)
       tools/fast_matrix.py --one <patch>                  (worker: prints one JSON line)
Never touches /repo or /verif/evidence: works on scratch copies under $TMPDIR."""
import concurrent.futures as cf, glob, json, os, shutil, subprocess, sys, tempfile
V = "/verif"


def worker(patch):
    scr = tempfile.mkdtemp(prefix="asca-fx-")
    try:
        subprocess.run(["rsync", "-a", "--exclude", "target", "--exclude", ".git", "/repo/", scr + "/repo/"], check=True)
        r = subprocess.run(["patch", "-p1", "-s", "--no-backup-if-mismatch", "-i", patch], cwd=scr + "/repo", capture_output=True, text=True)
        if r.returncode != 0:
            return {"error": "patch does not apply: " + (r.stdout + r.stderr)[-300:]}
        os.environ["ASCA_REPO"] = scr + "/repo"
        sys.path.insert(0, os.path.join(V, "rules"))
        import facts, registry, main as M
        from core import Ctx, AnchorMissing
        try:
            fdir = facts.ensure_facts(facts.REPO)
        except facts.ExtractionError as e:
            return {p: [{"rule": "extraction", "msg": str(e)[-200:]}] for p in registry.PROPS}
        lib, bn = facts.load_units(fdir)
        ctx = Ctx(lib, bn, facts.REPO, "quick")
        known = M.load_known()
        memo = {}
        out = {}
        for pid in sorted(registry.PROPS):
            keys = {f["key"] for f in known.get("findings", []) if f.get("property") == pid}
            reps = []
            for rid, fn in registry.PROPS[pid]["rules"]:
                if fn not in memo:
                    saved = registry.PROPS[pid]["rules"]
                    registry.PROPS["__one__"] = {"rules": [(rid, fn)]}
                    memo[fn] = M.run_rules("__one__", ctx)[0]
                    del registry.PROPS["__one__"]
                res = memo[fn]
                for rep in res.reports:
                    if rep.key in keys:
                        continue
                    reps.append({"rule": res.rule, "loc": (rep.loc or "").replace(scr + "/repo/", ""), "msg": (rep.msg or "")[:200], "key": rep.key})
            if reps:
                out[pid] = reps
        return out
    finally:
        shutil.rmtree(scr, ignore_errors=True)


def main():
    if len(sys.argv) > 2 and sys.argv[1] == "--one":
        print("RESULT " + json.dumps(worker(sys.argv[2]), ensure_ascii=False))
        return
    which = sys.argv[1] if len(sys.argv) > 1 else "seeded"
    pat = sys.argv[2] if len(sys.argv) > 2 else ""
    patches = {"seeded": sorted(glob.glob(V + "/seeded/*/patch.diff")), "mutants": sorted(glob.glob(V + "/mutants/*/*.patch")),
               "refactorings": sorted(glob.glob(V + "/refactorings/*.diff"))}[which]
    patches = [p for p in patches if pat in p]
    dst = V + "/%s/MATRIX.json" % which
    out = json.load(open(dst)) if (pat and os.path.exists(dst)) else {}

    def one(p):
        r = subprocess.run([sys.executable, __file__, "--one", p], capture_output=True, text=True)
        for line in r.stdout.splitlines():
            if line.startswith("RESULT "):
                return p, json.loads(line[7:])
        return p, {"error": (r.stdout + r.stderr)[-400:]}
    with cf.ThreadPoolExecutor(max_workers=int(os.environ.get("JOBS", "8"))) as ex:
        for p, res in ex.map(one, patches):
            name = os.path.relpath(p, V)
            out[name] = {k: [{kk: vv for kk, vv in x.items() if kk != "key"} for x in v] if isinstance(v, list) else v for k, v in res.items()}
            hit = sorted(k for k in res if k != "error")
            if hit:
                verdict = ("ALARM " if which == "refactorings" else "caught by ") + ", ".join("%s[%s]" % (k, "/".join(sorted({x['rule'] or '?' for x in res[k]}))) for k in hit)
            elif "error" in res:
                verdict = "ERROR " + res["error"]
            else:
                verdict = "silent" if which == "refactorings" else "not caught"
            print("%-46s %s" % (name, verdict), flush=True)
    json.dump(out, open(dst, "w"), indent=1, ensure_ascii=False)


if __name__ == "__main__":
    main()
