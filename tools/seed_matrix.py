#!/usr/bin/env python3
"""Run every claimed check against every seeded change (and every mutant) on scratch copies of /repo;
write /verif/seeded/MATRIX.json. Never touches /repo or /verif/evidence."""
import json, os, subprocess, sys, tempfile, shutil, glob, concurrent.futures as cf
V = "/verif"
sys.path.insert(0, os.path.join(V, "rules"))
import registry
PROPS = sorted(registry.PROPS)

def run_one(patch):
    scr = tempfile.mkdtemp(prefix="asca-mx-")
    try:
        subprocess.run(["rsync", "-a", "--exclude", "target", "--exclude", ".git", "/repo/", scr + "/repo/"], check=True)
        r = subprocess.run(["patch", "-p1", "-s", "--no-backup-if-mismatch", "-i", patch], cwd=scr + "/repo", capture_output=True, text=True)
        if r.returncode != 0:
            return patch, {"error": "patch does not apply: " + r.stdout[-300:]}
        env = dict(os.environ, ASCA_REPO=scr + "/repo", VERIF_EVIDENCE_DIR=scr + "/ev", VERIF_REPLAY_DIR=scr + "/replay")
        res = {}
        for pid in PROPS:
            p = subprocess.run([V + "/check", pid, "quick"], env=env, capture_output=True, text=True)
            reps = []
            d = os.path.join(scr, "replay", pid)
            if os.path.isdir(d):
                for f in sorted(os.listdir(d)):
                    try:
                        j = json.load(open(os.path.join(d, f)))
                        reps.append({"rule": j.get("rule"), "loc": (j.get("loc") or "").replace(scr + "/repo/", ""), "msg": (j.get("msg") or j.get("reason") or "")[:200]})
                    except Exception:
                        pass
            if p.returncode != 0:
                res[pid] = reps or [{"rule": "?", "msg": p.stdout[-300:]}]
        return patch, res
    finally:
        shutil.rmtree(scr, ignore_errors=True)

def main():
    which = sys.argv[1] if len(sys.argv) > 1 else "seeded"
    patches = sorted(glob.glob(V + "/seeded/*/patch.diff")) if which == "seeded" else sorted(glob.glob(V + "/mutants/*/*.patch"))
    out = {}
    with cf.ThreadPoolExecutor(max_workers=int(os.environ.get("JOBS", "4"))) as ex:
        for patch, res in ex.map(run_one, patches):
            name = os.path.relpath(patch, V)
            out[name] = res
            hit = sorted(k for k in res if k != "error")
            print("%-45s %s" % (name, ("caught by " + ", ".join("%s[%s]" % (k, "/".join(sorted({x['rule'] or '?' for x in res[k]}))) for k in hit)) if hit else ("ERROR " + res["error"] if "error" in res else "not caught")), flush=True)
    dst = V + ("/seeded/MATRIX.json" if which == "seeded" else "/mutants/MATRIX.json")
    json.dump(out, open(dst, "w"), indent=1, ensure_ascii=False)

if __name__ == "__main__":
    main()
