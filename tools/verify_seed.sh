#!/bin/bash
# usage: tools/verify_seed.sh <Cxx> <variant>   (reads /tmp/seed-out/<Cxx>/<variant>/)
# Confirms in a scratch worktree of /repo HEAD: patch applies, builds, 144 tests pass, demo fails with the patch and passes without.
set -u
ID=$1; V=$2; SRC=${SEED_ROOT:-/tmp/seed-out}/$ID/$V
WT=/tmp/vseed/$ID-$V
export CARGO_NET_OFFLINE=true CARGO_TARGET_DIR=/tmp/vseed-target
mkdir -p /tmp/vseed
git -C /repo worktree remove --force $WT 2>/dev/null; rm -rf $WT
git -C /repo worktree add -q --detach $WT HEAD || exit 9
cleanup() { git -C /repo worktree remove --force $WT 2>/dev/null; rm -rf $WT; }
trap cleanup EXIT
cd $WT; ln -sfn /tmp/vseed-target $WT/target
git apply --check $SRC/patch.diff || { echo "RESULT $ID-$V patch-does-not-apply"; exit 1; }
git apply $SRC/patch.diff
cargo build --offline -q 2>&1 | tail -3
[ ${PIPESTATUS[0]} = 0 ] || { echo "RESULT $ID-$V build-fails"; exit 1; }
T=$(cargo test --offline 2>&1 | grep -E "^test result" | head -1)
echo "tests with patch: $T"
echo "$T" | grep -q "144 passed; 0 failed" || { echo "RESULT $ID-$V suite-fails"; exit 1; }
run_demo() {
  if [ -f $SRC/demo.rs ]; then
    mkdir -p tests; cp $SRC/demo.rs tests/demo_seed.rs
    cargo test --offline --test demo_seed >/tmp/vseed/$ID-$V.$1.log 2>&1; rc=$?
    rm -f tests/demo_seed.rs
    return $rc
  elif [ -f $SRC/demo.sh ]; then
    bash $SRC/demo.sh $WT >/tmp/vseed/$ID-$V.$1.log 2>&1; return $?
  else
    echo "no demo"; return 99
  fi
}
run_demo with; W=$?
git checkout -q -- . ; git clean -fdq tests 2>/dev/null
run_demo without; WO=$?
echo "demo with patch rc=$W ; without rc=$WO"
if [ $W != 0 ] && [ $WO = 0 ]; then echo "RESULT $ID-$V confirmed"; exit 0; else echo "RESULT $ID-$V NOT-confirmed"; exit 1; fi
