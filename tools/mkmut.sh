#!/bin/bash
# usage: tools/mkmut.sh <Cxx> <NN-name> <file> <python-expr old> <python-expr new>
# Creates /verif/mutants/<Cxx>/<NN-name>.patch by replacing exactly one occurrence of <old> by <new> in /repo/<file>
# (on a scratch copy; /repo is untouched).
set -eu
ID=$1; NAME=$2; FILE=$3; OLD=$4; NEW=$5
SCR=$(mktemp -d /tmp/mkmut-XXXXXX); trap 'rm -rf $SCR' EXIT
mkdir -p $SCR/a/$(dirname $FILE) $SCR/b/$(dirname $FILE)
cp /repo/$FILE $SCR/a/$FILE; cp /repo/$FILE $SCR/b/$FILE
OLD="$OLD" NEW="$NEW" python3 - "$SCR/b/$FILE" <<'PY'
import os,sys
p=sys.argv[1]; s=open(p).read(); old=os.environ['OLD']; new=os.environ['NEW']
n=s.count(old)
if n!=1: sys.exit("mkmut: %d occurrences of old text"%n)
open(p,'w').write(s.replace(old,new))
PY
mkdir -p /verif/mutants/$ID
( cd $SCR && diff -u a/$FILE b/$FILE > /verif/mutants/$ID/$NAME.patch || true )
echo "wrote /verif/mutants/$ID/$NAME.patch"
