#!/bin/bash
# For every /verif/mutants/*/*.patch: scratch worktree of /repo HEAD, apply, cargo build, cargo test (144 must pass).
# Writes /verif/mutants/STATUS.txt (one line per mutant).
export CARGO_NET_OFFLINE=true CARGO_TARGET_DIR=/tmp/vseed-target
OUT=/verif/mutants/STATUS.txt; : > $OUT
WT=/tmp/vseed/mutcheck
git -C /repo worktree remove --force $WT 2>/dev/null; rm -rf $WT; mkdir -p /tmp/vseed
git -C /repo worktree add -q --detach $WT HEAD || exit 9
for p in /verif/mutants/*/*.patch; do
  cd $WT; git checkout -q -- . ; git clean -fdq
  if ! patch -p1 -s --no-backup-if-mismatch < $p; then echo "$(basename $(dirname $p))/$(basename $p) DOES-NOT-APPLY" >> $OUT; continue; fi
  if ! cargo build --offline -q 2>/dev/null; then echo "$(basename $(dirname $p))/$(basename $p) BUILD-FAILS" >> $OUT; continue; fi
  # a mutant that makes a test loop: timeout kills cargo, not the test binary (a pipe would stay open), hence the file
  timeout 300 cargo test --offline > /tmp/vseed/mutcheck.log 2>&1
  pkill -f "$CARGO_TARGET_DIR/debug/deps/asc[a]-" 2>/dev/null
  T=$(grep -E "^test result" /tmp/vseed/mutcheck.log | head -1)
  echo "$(basename $(dirname $p))/$(basename $p) ${T:-NO-RESULT}" >> $OUT
done
cd /; git -C /repo worktree remove --force $WT
