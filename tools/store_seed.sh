#!/bin/bash
# usage: tools/store_seed.sh <Cxx> <variant> : verify a sub-agent's seed and keep it under /verif/seeded/<Cxx>-<variant>/
set -u
ID=$1; V=$2; SRC=${SEED_ROOT:-/tmp/seed-out}/$ID/$V; DST=/verif/seeded/$ID-$V
OUT=$(/verif/tools/verify_seed.sh $ID $V 2>&1); echo "$OUT" | tail -3
if echo "$OUT" | grep -q "RESULT $ID-$V confirmed"; then
  mkdir -p $DST; cp $SRC/patch.diff $DST/; [ -f $SRC/demo.rs ] && cp $SRC/demo.rs $DST/; [ -f $SRC/demo.sh ] && cp $SRC/demo.sh $DST/
  python3 - "$SRC/meta.json" "$DST/meta.json" "$ID" "$V" <<'PY'
import json,sys,subprocess
src,dst,pid,v=sys.argv[1:5]
try: m=json.load(open(src))
except Exception as e: m={"property":pid,"variant":v,"summary":"(agent meta.json unreadable: %r)"%e}
head=subprocess.run(["git","-C","/repo","rev-parse","--short","HEAD"],capture_output=True,text=True).stdout.strip()
m["breaks_property"]=pid
m["confirmed_by_me"]={"repo_head":head,"ran":["tools/verify_seed.sh %s %s: scratch worktree of /repo HEAD; git apply patch.diff; cargo build --offline; cargo test --offline (144 passed, 0 failed); demo copied to tests/ and run: FAILS with patch; patch reverted; demo run again: PASSES"%(pid,v)]}
json.dump(m,open(dst,"w"),indent=1,ensure_ascii=False)
PY
  echo "stored $DST"
else
  echo "NOT stored: $ID-$V"
fi
