#!/usr/bin/env python3
"""usage: tools/seed_table.py <variant letters>   -- markdown rows (seed | the seeder's summary, cut | reported by) for the stored
seeds of those variants, from seeded/MATRIX.json (written by `tools/fast_matrix.py seeded`) and each seed's meta.json"""
import json, os, sys
root = os.path.dirname(os.path.dirname(os.path.abspath(__file__)))
letters = set(sys.argv[1]) if len(sys.argv) > 1 else set("abcdefghijkl")
mx = json.load(open(os.path.join(root, "seeded", "MATRIX.json")))
rows = []
for key in sorted(mx):
    sid = key.split("/")[1]
    if sid[-1] not in letters:
        continue
    meta = json.load(open(os.path.join(root, "seeded", sid, "meta.json")))
    summ = " ".join((meta.get("summary") or "").split())
    summ = (summ[:150] + "…") if len(summ) > 150 else summ
    summ = summ.replace("|", "\\|")
    res = mx[key]
    if isinstance(res, dict) and "error" in res:
        by = "(patch does not apply)"
    else:
        own = sid[:3]
        parts = []
        for p in sorted(res, key=lambda p: (p != own, p)):
            parts.append("%s %s" % (p, "/".join(sorted({x["rule"] for x in res[p]}))))
        by = "; ".join(parts) if parts else "— not reported"
    rows.append("| %s | %s | %s |" % (sid, summ, by))
print("\n".join(rows))
