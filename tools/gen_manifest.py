#!/usr/bin/env python3
"""Regenerate /verif/MANIFEST.json from rules/registry.py (keeps the two in sync)."""
import json, os, sys
HERE = os.path.dirname(os.path.abspath(__file__))
sys.path.insert(0, os.path.join(HERE, "..", "rules"))
import registry

NA_FIXED = {
}
ALL = ["C%02d" % i for i in range(1, 21)]
_BIT = "static analysis: bit-level abstract interpretation (forward dataflow over symbolic bits) of the accessors' MIR + custom rules over type-checked HIR / MIR (rustc_private driver)"
TECH = {
    "C18": _BIT, "C04": _BIT, "C08": _BIT + "; MIR typestate dataflow", "C09": _BIT, "C07": _BIT + "; decision-table extraction from HIR",
    "C05": "static analysis: decision-table extraction from type-checked HIR over finite abstract domains, MIR dominance (rustc_private driver)",
    "C02": "static analysis: MIR liveness / borrow summaries, HIR may-analyses (producer/consumer variant agreement), CFG dominance (rustc_private driver)",
    "C01": "static analysis: effect analysis over the resolved call graph, unordered-iteration escape analysis (rustc_private driver)",
}

checks = []
for pid in ALL:
    if pid not in registry.PROPS:
        continue
    m = registry.PROPS[pid]
    rules = ", ".join(r for r, _ in m["rules"])
    checks.append({
        "property_id": pid,
        "quick_cmd": "./check %s quick" % pid,
        "thorough_cmd": "./check %s thorough" % pid,
        "evidence_file": "/verif/evidence/%s.json" % pid,
        "replay_cmd_template": "cat {path}",
        "engine": m.get("engine", "asca-facts + rules"),
        "level_claimed": {
            "category": "other",
            "text": "Static analysis of the resolved program (HIR/MIR facts from a rustc_private driver over /repo's current tree), rules %s. %s It decides this structural clause on every path of the code, not the run-time behaviour." % (rules, m["explanation"]),
            "design_ref": "DESIGN.md §3 " + pid,
        },
        "level_note": "Does not decide: " + m.get("does_not_decide", "") + " Trusted base: rustc nightly front end, /verif/driver serialisation, /verif/rules. Assumes: " + "; ".join(m.get("assumptions", [])),
        "technique": m.get("technique", TECH.get(pid, "static analysis: custom rules over type-checked HIR / MIR (rustc_private driver)")),
    })

na = []
for pid in ALL:
    if pid in registry.PROPS:
        continue
    na.append({"property_id": pid, "reason": NA_FIXED.get(pid, "not claimed: the static rules designed for this property (DESIGN.md §3) are not built yet in this commit")})

man = {
    "version": 1,
    "setup_cmd": "./setup.sh",
    "hooks": {
        "guard": "asca_verif",
        "enable": "none needed: the checks add no instrumentation to /repo; facts are extracted with `cargo +nightly check` and RUSTC_WORKSPACE_WRAPPER=/verif/driver/target/release/asca-facts",
        "baseline_off_cmd": "cd /repo && cargo test --workspace --no-fail-fast --offline",
        "source_commits": ["17ac8f7", "adea19f", "a8abec9", "64cbbb0", "8735a3e", "9f2da96", "f94a4cd", "3e80556", "30ef3de", "8c6f942", "abe039b", "6358128", "9bad5b8", "c37235d", "b75ea0e", "257d9ce", "d014bb6", "52a38d2", "113b5d4", "2a88e7e", "453741f", "e1227f5", "0ca6394", "750e3d0", "2adeed1", "5c4664a", "cdb800c", "ef24a63", "7108abb", "32f3d2f", "4c88210", "9b1a1e0"],
        "add_only": True,
    },
    "engines": [
        {"name": "asca-facts", "path": "driver/", "serves_properties": [c["property_id"] for c in checks],
         "kind_free_text": "rustc_private driver: serialises type-checked HIR trees, MIR with resolved callees, ADT layouts, statics, evaluated consts"},
        {"name": "rules", "path": "rules/", "serves_properties": [c["property_id"] for c in checks],
         "kind_free_text": "python rule engines (table agreement, effects/purity, panic discipline, flow/dominance, error discipline, CLI wiring)"},
    ],
    "checks": checks,
    "not_applicable": na,
    "notes": "Technique family: static analysis only. hooks.source_commits lists the unguarded `fix:` commits (genuine defects repaired); there are no hook commits. Known findings: /verif/known_findings.json.",
}
json.dump(man, open(os.path.join(HERE, "..", "MANIFEST.json"), "w"), indent=1, ensure_ascii=False)
print("claimed:", [c["property_id"] for c in checks])
