"""interactive helper: from sh import *  -> lib, bn units of the current /repo tree"""
import json, sys, os
sys.path.insert(0, '/verif/rules')
import facts, hirq, cfg
from facts import *
_d = facts.ensure_facts(facts.REPO)
lib, bn = facts.load_units(_d)
def J(x, n=2000): print(json.dumps(x, ensure_ascii=False)[:n])
