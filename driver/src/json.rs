//! Minimal JSON value + serializer (the driver has zero cargo dependencies).

use std::fmt::Write;

#[derive(Clone, Debug)]
pub enum J {
    Null,
    Bool(bool),
    Int(i128),
    Str(String),
    Arr(Vec<J>),
    Obj(Vec<(String, J)>),
}

impl J {
    pub fn s<T: Into<String>>(s: T) -> J {
        J::Str(s.into())
    }
    pub fn obj() -> Obj {
        Obj(Vec::new())
    }
    pub fn write(&self, out: &mut String) {
        match self {
            J::Null => out.push_str("null"),
            J::Bool(b) => out.push_str(if *b { "true" } else { "false" }),
            J::Int(i) => {
                let _ = write!(out, "{}", i);
            }
            J::Str(s) => write_str(s, out),
            J::Arr(v) => {
                out.push('[');
                for (i, x) in v.iter().enumerate() {
                    if i > 0 {
                        out.push(',');
                    }
                    x.write(out);
                }
                out.push(']');
            }
            J::Obj(v) => {
                out.push('{');
                for (i, (k, x)) in v.iter().enumerate() {
                    if i > 0 {
                        out.push(',');
                    }
                    write_str(k, out);
                    out.push(':');
                    x.write(out);
                }
                out.push('}');
            }
        }
    }
}

pub struct Obj(Vec<(String, J)>);

impl Obj {
    pub fn put<T: Into<String>>(mut self, k: T, v: J) -> Self {
        self.0.push((k.into(), v));
        self
    }
    pub fn put_s<T: Into<String>, U: Into<String>>(self, k: T, v: U) -> Self {
        self.put(k, J::Str(v.into()))
    }
    pub fn put_i<T: Into<String>>(self, k: T, v: i128) -> Self {
        self.put(k, J::Int(v))
    }
    pub fn put_b<T: Into<String>>(self, k: T, v: bool) -> Self {
        self.put(k, J::Bool(v))
    }
    pub fn put_opt<T: Into<String>>(self, k: T, v: Option<J>) -> Self {
        match v {
            Some(v) => self.put(k, v),
            None => self,
        }
    }
    pub fn done(self) -> J {
        J::Obj(self.0)
    }
}

fn write_str(s: &str, out: &mut String) {
    out.push('"');
    for c in s.chars() {
        match c {
            '"' => out.push_str("\\\""),
            '\\' => out.push_str("\\\\"),
            '\n' => out.push_str("\\n"),
            '\r' => out.push_str("\\r"),
            '\t' => out.push_str("\\t"),
            c if (c as u32) < 0x20 => {
                let _ = write!(out, "\\u{:04x}", c as u32);
            }
            c => out.push(c),
        }
    }
    out.push('"');
}
