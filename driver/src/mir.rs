//! MIR serialisation: locals, blocks, statements, terminators; callees resolved
//! through Instance::try_resolve; constants evaluated where possible.

use crate::json::J;
use crate::Cx;
use rustc_hir::def::DefKind;
use rustc_middle::mir::{
    self, AggregateKind, BasicBlockData, Body, BorrowKind, CastKind, Const, ConstValue, Operand,
    Place, ProjectionElem, Rvalue, StatementKind, TerminatorKind, UnwindAction, VarDebugInfoContents,
};
use rustc_middle::ty::{self, Instance, Ty, TypingEnv};
use rustc_span::def_id::{DefId, LocalDefId};

pub fn dump_body<'tcx>(cx: &Cx<'tcx>, ldid: LocalDefId) -> Option<J> {
    let tcx = cx.tcx;
    let did = ldid.to_def_id();
    let kind = tcx.def_kind(did);
    let (kind_s, use_ctfe) = match kind {
        DefKind::Fn => ("fn", false),
        DefKind::AssocFn => ("assoc_fn", false),
        DefKind::Closure => ("closure", false),
        DefKind::Const { .. } => ("const", true),
        DefKind::AssocConst { .. } => ("assoc_const", true),
        DefKind::Static { .. } => ("static", true),
        DefKind::AnonConst => ("anon_const", true),
        DefKind::InlineConst => ("inline_const", true),
        _ => return None,
    };
    // Coroutine closures etc. are not expected in this crate; skip anything exotic.
    if kind == DefKind::Closure && tcx.is_coroutine(did) {
        return None;
    }
    let body: &Body<'tcx> = if use_ctfe { tcx.mir_for_ctfe(ldid) } else { tcx.optimized_mir(did) };

    let span = tcx.def_span(did);
    let mut o = J::obj()
        .put_s("path", cx.path(did))
        .put_s("kind", kind_s)
        .put_s("loc", cx.loc(span))
        .put_i("end_line", cx.end_line(body.span))
        .put_b("exp", span.from_expansion());

    if matches!(kind, DefKind::Fn | DefKind::AssocFn) {
        let vis = tcx.visibility(did);
        o = o.put_b("pub", vis.is_public());
        let names: Vec<J> = tcx
            .fn_arg_idents(did)
            .iter()
            .map(|i| match i {
                Some(id) => J::s(id.name.to_string()),
                None => J::Null,
            })
            .collect();
        o = o.put("param_names", J::Arr(names));
        let sig = tcx.fn_sig(did).instantiate_identity().skip_norm_wip().skip_binder();
        o = o.put("param_tys", J::Arr(sig.inputs().iter().map(|t| J::s(cx.ty_str(*t))).collect()));
        o = o.put_s("ret_ty", cx.ty_str(sig.output()));
        o = o.put_b("unsafe_fn", sig.safety().is_unsafe());
        // enclosing impl / trait, if any
        if let Some(parent) = tcx.opt_parent(did) {
            match tcx.def_kind(parent) {
                DefKind::Impl { .. } => {
                    let self_ty = tcx.type_of(parent).instantiate_identity().skip_norm_wip();
                    o = o.put_s("impl_self", cx.ty_str(self_ty));
                    if let Some(tr) = tcx.impl_opt_trait_ref(parent) {
                        let tr = tr.instantiate_identity().skip_norm_wip();
                        o = o.put_s("impl_trait", cx.path(tr.def_id));
                    }
                }
                _ => {}
            }
        }
    }
    if kind == DefKind::Closure {
        if let Some(parent) = tcx.opt_parent(did) {
            o = o.put_s("parent", cx.path(parent));
        }
    }

    o = o.put("mir", dump_mir(cx, did, body));

    // promoted constants of this body
    if !use_ctfe {
        let promoted = tcx.promoted_mir(did);
        let mut ps = Vec::new();
        for (_i, pb) in promoted.iter_enumerated() {
            ps.push(dump_mir(cx, did, pb));
        }
        o = o.put("promoted", J::Arr(ps));
    }

    o = o.put("hir", crate::hir::dump(cx, ldid));
    Some(o.done())
}

fn dump_mir<'tcx>(cx: &Cx<'tcx>, owner: DefId, body: &Body<'tcx>) -> J {
    let mut names: Vec<Option<String>> = vec![None; body.local_decls.len()];
    for vdi in &body.var_debug_info {
        if let VarDebugInfoContents::Place(p) = &vdi.value {
            if p.projection.is_empty() {
                let i = p.local.as_usize();
                if names[i].is_none() {
                    names[i] = Some(vdi.name.to_string());
                }
            }
        }
    }
    // closure captures / by-ref bindings: name of `(*_1).k` style debuginfo
    let mut upvars: Vec<J> = Vec::new();
    for vdi in &body.var_debug_info {
        if let VarDebugInfoContents::Place(p) = &vdi.value {
            if !p.projection.is_empty() {
                upvars.push(
                    J::obj()
                        .put_s("name", vdi.name.to_string())
                        .put("pl", place(cx, body, p))
                        .done(),
                );
            }
        }
    }
    let locals: Vec<J> = body
        .local_decls
        .iter_enumerated()
        .map(|(l, d)| {
            let mut o = J::obj().put_s("ty", cx.ty_str(d.ty));
            if let Some(n) = &names[l.as_usize()] {
                o = o.put_s("name", n.clone());
            }
            o.done()
        })
        .collect();
    let blocks: Vec<J> = body.basic_blocks.iter().map(|bb| block(cx, owner, body, bb)).collect();
    J::obj()
        .put_i("arg_count", body.arg_count as i128)
        .put("locals", J::Arr(locals))
        .put("upvars", J::Arr(upvars))
        .put("blocks", J::Arr(blocks))
        .done()
}

fn block<'tcx>(cx: &Cx<'tcx>, owner: DefId, body: &Body<'tcx>, bb: &BasicBlockData<'tcx>) -> J {
    let mut stmts = Vec::new();
    for st in &bb.statements {
        let si = st.source_info.span;
        match &st.kind {
            StatementKind::Assign(b) => {
                let (pl, rv) = &**b;
                stmts.push(
                    J::obj()
                        .put_s("k", "assign")
                        .put("lhs", place(cx, body, pl))
                        .put("rv", rvalue(cx, owner, body, rv))
                        .put_s("loc", cx.loc(si))
                        .put_b("exp", si.from_expansion())
                        .done(),
                );
            }
            StatementKind::SetDiscriminant { place: pl, variant_index } => {
                stmts.push(
                    J::obj()
                        .put_s("k", "set_discr")
                        .put("lhs", place(cx, body, pl))
                        .put_i("variant", variant_index.as_usize() as i128)
                        .put_s("loc", cx.loc(si))
                        .done(),
                );
            }
            StatementKind::StorageLive(l) => {
                stmts.push(J::obj().put_s("k", "live").put_i("l", l.as_usize() as i128).done());
            }
            StatementKind::StorageDead(l) => {
                stmts.push(J::obj().put_s("k", "dead").put_i("l", l.as_usize() as i128).done());
            }
            _ => {}
        }
    }
    let term = bb.terminator();
    let ts = term.source_info.span;
    let t = match &term.kind {
        TerminatorKind::Goto { target } => J::obj().put_s("k", "goto").put_i("t", target.as_usize() as i128),
        TerminatorKind::SwitchInt { discr, targets } => {
            let vals: Vec<J> = targets
                .iter()
                .map(|(v, t)| J::Arr(vec![J::Int(v as i128), J::Int(t.as_usize() as i128)]))
                .collect();
            J::obj()
                .put_s("k", "switch")
                .put("op", operand(cx, owner, body, discr))
                .put("vals", J::Arr(vals))
                .put_i("otherwise", targets.otherwise().as_usize() as i128)
        }
        TerminatorKind::Return => J::obj().put_s("k", "return"),
        TerminatorKind::Unreachable => J::obj().put_s("k", "unreachable"),
        TerminatorKind::UnwindResume => J::obj().put_s("k", "resume"),
        TerminatorKind::UnwindTerminate(_) => J::obj().put_s("k", "terminate"),
        TerminatorKind::Drop { place: pl, target, unwind, .. } => J::obj()
            .put_s("k", "drop")
            .put("pl", place(cx, body, pl))
            .put_i("t", target.as_usize() as i128)
            .put("unwind", unwind_j(unwind)),
        TerminatorKind::Call { func, args, destination, target, unwind, .. } => {
            let mut o = J::obj().put_s("k", "call");
            o = o.put("callee", callee(cx, owner, body, func));
            o = o.put(
                "args",
                J::Arr(args.iter().map(|a| operand(cx, owner, body, &a.node)).collect()),
            );
            o = o.put("dest", place(cx, body, destination));
            o = o.put(
                "t",
                match target {
                    Some(t) => J::Int(t.as_usize() as i128),
                    None => J::Null,
                },
            );
            o.put("unwind", unwind_j(unwind))
        }
        TerminatorKind::TailCall { func, args, .. } => J::obj()
            .put_s("k", "tailcall")
            .put("callee", callee(cx, owner, body, func))
            .put("args", J::Arr(args.iter().map(|a| operand(cx, owner, body, &a.node)).collect())),
        TerminatorKind::Assert { cond, expected, msg, target, unwind } => J::obj()
            .put_s("k", "assert")
            .put("cond", operand(cx, owner, body, cond))
            .put_b("expected", *expected)
            .put_s("msg", assert_kind(msg))
            .put_i("t", target.as_usize() as i128)
            .put("unwind", unwind_j(unwind)),
        TerminatorKind::FalseEdge { real_target, .. } => {
            J::obj().put_s("k", "goto").put_i("t", real_target.as_usize() as i128)
        }
        TerminatorKind::FalseUnwind { real_target, .. } => {
            J::obj().put_s("k", "goto").put_i("t", real_target.as_usize() as i128)
        }
        TerminatorKind::Yield { .. } => J::obj().put_s("k", "yield"),
        TerminatorKind::CoroutineDrop => J::obj().put_s("k", "coroutine_drop"),
        TerminatorKind::InlineAsm { .. } => J::obj().put_s("k", "asm"),
    };
    let t = t.put_s("loc", cx.loc(ts)).put_b("exp", ts.from_expansion()).done();
    J::obj().put("s", J::Arr(stmts)).put("t", t).put_b("cleanup", bb.is_cleanup).done()
}

fn assert_kind<'tcx>(msg: &mir::AssertKind<Operand<'tcx>>) -> String {
    use mir::AssertKind::*;
    match msg {
        BoundsCheck { .. } => "bounds".into(),
        Overflow(op, ..) => format!("overflow:{:?}", op),
        OverflowNeg(_) => "overflow:Neg".into(),
        DivisionByZero(_) => "div0".into(),
        RemainderByZero(_) => "rem0".into(),
        MisalignedPointerDereference { .. } => "misaligned".into(),
        NullPointerDereference => "nullptr".into(),
        _ => "other".into(),
    }
}

fn unwind_j(u: &UnwindAction) -> J {
    match u {
        UnwindAction::Cleanup(bb) => J::Int(bb.as_usize() as i128),
        _ => J::Null,
    }
}

fn callee<'tcx>(cx: &Cx<'tcx>, owner: DefId, body: &Body<'tcx>, func: &Operand<'tcx>) -> J {
    let tcx = cx.tcx;
    if let Some((cdid, gargs)) = func.const_fn_def() {
        let mut o = J::obj().put_s("def", cx.path(cdid)).put_b("local", cdid.is_local());
        {
            use rustc_middle::ty::print::{with_crate_prefix, with_no_trimmed_paths, with_no_visible_paths};
            let full = with_crate_prefix!(with_no_visible_paths!(with_no_trimmed_paths!(tcx.def_path_str_with_args(cdid, gargs))));
            o = o.put_s("inst", cx.canon(&full));
        }
        o = o.put(
            "gargs",
            J::Arr(
                gargs
                    .iter()
                    .filter_map(|a| a.as_type())
                    .map(|t| J::s(cx.ty_str(t)))
                    .collect(),
            ),
        );
        // the trait the callee belongs to, if it is a trait method
        if let Some(tr) = tcx.trait_of_assoc(cdid) {
            o = o.put_s("trait", cx.path(tr));
        }
        let env = TypingEnv::post_analysis(tcx, owner);
        let gargs_n = tcx.try_normalize_erasing_regions(env, ty::Unnormalized::new_wip(gargs)).unwrap_or(gargs);
        if let Ok(Some(inst)) = Instance::try_resolve(tcx, env, cdid, gargs_n) {
            let rdid = inst.def_id();
            o = o.put_s("res", cx.path(rdid)).put_b("res_local", rdid.is_local());
            let ik = match inst.def {
                ty::InstanceKind::Item(_) => "item",
                ty::InstanceKind::Intrinsic(_) => "intrinsic",
                ty::InstanceKind::Virtual(..) => "virtual",
                ty::InstanceKind::ClosureOnceShim { .. } => "closure_once_shim",
                ty::InstanceKind::FnPtrShim(..) => "fnptr_shim",
                ty::InstanceKind::DropGlue(..) => "drop_glue",
                ty::InstanceKind::CloneShim(..) => "clone_shim",
                ty::InstanceKind::ReifyShim(..) => "reify_shim",
                _ => "other",
            };
            o = o.put_s("res_kind", ik);
        }
        o.done()
    } else {
        // indirect call through a fn pointer / closure value held in a place
        J::obj().put_s("def", "<indirect>").put("op", operand(cx, owner, body, func)).done()
    }
}

pub fn place<'tcx>(cx: &Cx<'tcx>, body: &Body<'tcx>, pl: &Place<'tcx>) -> J {
    let tcx = cx.tcx;
    let mut projs = Vec::new();
    let mut pty = mir::PlaceTy::from_ty(body.local_decls[pl.local].ty);
    for elem in pl.projection.iter() {
        let j = match elem {
            ProjectionElem::Deref => J::s("*"),
            ProjectionElem::Field(f, fty) => {
                let mut o = J::obj().put_i("f", f.as_usize() as i128).put_s("ty", cx.ty_str(fty));
                if let ty::Adt(adt, _) = pty.ty.kind() {
                    let vidx = pty.variant_index.unwrap_or(rustc_abi::FIRST_VARIANT);
                    if adt.is_enum() || adt.is_struct() || adt.is_union() {
                        if vidx.as_usize() < adt.variants().len() {
                            let v = adt.variant(vidx);
                            if f.as_usize() < v.fields.len() {
                                o = o.put_s("n", v.fields[f].name.to_string());
                            }
                        }
                    }
                    o = o.put_s("of", cx.path(adt.did()));
                }
                o.done()
            }
            ProjectionElem::Index(l) => J::obj().put_i("idx", l.as_usize() as i128).done(),
            ProjectionElem::ConstantIndex { offset, from_end, .. } => {
                J::obj().put_i("cidx", offset as i128).put_b("from_end", from_end).done()
            }
            ProjectionElem::Subslice { from, to, from_end } => {
                J::obj().put_i("sub_from", from as i128).put_i("sub_to", to as i128).put_b("from_end", from_end).done()
            }
            ProjectionElem::Downcast(name, vidx) => {
                let mut o = J::obj().put_i("dc", vidx.as_usize() as i128);
                if let Some(n) = name {
                    o = o.put_s("v", n.to_string());
                } else if let ty::Adt(adt, _) = pty.ty.kind() {
                    if vidx.as_usize() < adt.variants().len() {
                        o = o.put_s("v", adt.variant(vidx).name.to_string());
                    }
                }
                o.done()
            }
            ProjectionElem::OpaqueCast(_) => J::s("opaque"),
            ProjectionElem::UnwrapUnsafeBinder(_) => J::s("unwrap_binder"),
        };
        projs.push(j);
        pty = pty.projection_ty(tcx, elem);
    }
    J::obj().put_i("l", pl.local.as_usize() as i128).put("p", J::Arr(projs)).done()
}

pub fn operand<'tcx>(cx: &Cx<'tcx>, owner: DefId, body: &Body<'tcx>, op: &Operand<'tcx>) -> J {
    match op {
        Operand::Copy(p) => J::obj().put_s("k", "copy").put("pl", place(cx, body, p)).done(),
        Operand::Move(p) => J::obj().put_s("k", "move").put("pl", place(cx, body, p)).done(),
        Operand::Constant(c) => constant(cx, owner, &c.const_),
        #[allow(unreachable_patterns)]
        _ => J::obj().put_s("k", "other").done(),
    }
}

fn constant<'tcx>(cx: &Cx<'tcx>, owner: DefId, c: &Const<'tcx>) -> J {
    let tcx = cx.tcx;
    let ty = c.ty();
    let mut o = J::obj().put_s("k", "const").put_s("ty", cx.ty_str(ty));
    // function items / closures mentioned as values
    match ty.kind() {
        ty::FnDef(did, _) => {
            o = o.put_s("fn", cx.path(*did)).put_b("fn_local", did.is_local());
            return o.done();
        }
        _ => {}
    }
    if let Const::Unevaluated(u, _) = c {
        o = o.put_s("def", cx.path(u.def));
        if let Some(p) = u.promoted {
            o = o.put_i("promoted", p.as_usize() as i128);
            return o.done();
        }
    }
    let env = TypingEnv::post_analysis(tcx, owner);
    // never evaluate generic constants
    let evaluable = match c {
        Const::Unevaluated(u, _) => !u.args.iter().any(|a| {
            use rustc_middle::ty::TypeVisitableExt;
            a.has_param()
        }),
        _ => true,
    };
    if evaluable {
        if let Ok(v) = c.eval(tcx, env, rustc_span::DUMMY_SP) {
            o = value(cx, o, v, ty);
        }
    }
    o.done()
}

pub fn value<'tcx>(cx: &Cx<'tcx>, mut o: crate::json::Obj, v: ConstValue, ty: Ty<'tcx>) -> crate::json::Obj {
    let tcx = cx.tcx;
    match v {
        ConstValue::Scalar(mir::interpret::Scalar::Int(si)) => {
            let bits = si.to_bits_unchecked();
            match ty.kind() {
                ty::Bool => o = o.put_b("bool", bits != 0),
                ty::Char => {
                    if let Some(ch) = char::from_u32(bits as u32) {
                        o = o.put_s("char", ch.to_string());
                    }
                    o = o.put_i("int", bits as i128);
                }
                ty::Int(_) => {
                    let size = si.size();
                    let sv = size.sign_extend(bits);
                    o = o.put_i("int", sv);
                }
                ty::Uint(_) => o = o.put_i("int", bits as i128),
                ty::Adt(adt, _) if adt.is_enum() => {
                    // fieldless enum constant: scalar is the discriminant value (tag)
                    o = o.put_i("tag", bits as i128);
                    for (vi, d) in adt.discriminants(tcx) {
                        if d.val == bits {
                            o = o.put_s("variant", adt.variant(vi).name.to_string());
                            o = o.put_s("adt", cx.path(adt.did()));
                        }
                    }
                }
                _ => o = o.put_i("bits", bits as i128),
            }
        }
        ConstValue::ZeroSized => {
            o = o.put_b("zst", true);
        }
        ConstValue::Slice { .. } => {
            if let Some(bytes) = v.try_get_slice_bytes_for_diagnostics(tcx) {
                match std::str::from_utf8(bytes) {
                    Ok(s) => o = o.put_s("str", s),
                    Err(_) => o = o.put_s("bytes", format!("{:?}", bytes)),
                }
            }
        }
        ConstValue::Indirect { .. } => {
            // aggregate constant; give the pretty-printed form
            use rustc_middle::ty::print::{with_no_trimmed_paths, with_no_visible_paths};
            let c = Const::Val(v, ty);
            let s = with_no_visible_paths!(with_no_trimmed_paths!(format!("{}", c)));
            if s.len() < 400 {
                o = o.put_s("pretty", s);
            }
            // unit-like enum variants of data-carrying enums (e.g. Option::None) show here
        }
        #[allow(unreachable_patterns)]
        _ => {}
    }
    o
}

fn rvalue<'tcx>(cx: &Cx<'tcx>, owner: DefId, body: &Body<'tcx>, rv: &Rvalue<'tcx>) -> J {
    let tcx = cx.tcx;
    match rv {
        Rvalue::Use(op, ..) => J::obj().put_s("k", "use").put("op", operand(cx, owner, body, op)).done(),
        Rvalue::Repeat(op, _) => J::obj().put_s("k", "repeat").put("op", operand(cx, owner, body, op)).done(),
        Rvalue::Ref(_, bk, pl) => J::obj()
            .put_s("k", "ref")
            .put_b("mut", matches!(bk, BorrowKind::Mut { .. }))
            .put_b("fake", matches!(bk, BorrowKind::Fake(_)))
            .put("pl", place(cx, body, pl))
            .done(),
        Rvalue::RawPtr(_, pl) => J::obj().put_s("k", "rawptr").put("pl", place(cx, body, pl)).done(),
        Rvalue::ThreadLocalRef(did) => J::obj().put_s("k", "tls").put_s("def", cx.path(*did)).done(),
        Rvalue::Cast(ck, op, ty) => {
            let cks = match ck {
                CastKind::PointerExposeProvenance => "PointerExposeProvenance".to_string(),
                CastKind::PointerWithExposedProvenance => "PointerWithExposedProvenance".to_string(),
                CastKind::PointerCoercion(pc, _) => format!("PointerCoercion:{:?}", pc),
                other => format!("{:?}", other),
            };
            J::obj()
                .put_s("k", "cast")
                .put_s("ck", cks)
                .put("op", operand(cx, owner, body, op))
                .put_s("ty", cx.ty_str(*ty))
                .done()
        }
        Rvalue::BinaryOp(op, b) => J::obj()
            .put_s("k", "binop")
            .put_s("op", format!("{:?}", op))
            .put("a", operand(cx, owner, body, &b.0))
            .put("b", operand(cx, owner, body, &b.1))
            .done(),
        Rvalue::UnaryOp(op, a) => J::obj()
            .put_s("k", "unop")
            .put_s("op", format!("{:?}", op))
            .put("a", operand(cx, owner, body, a))
            .done(),
        Rvalue::Discriminant(pl) => {
            let mut o = J::obj().put_s("k", "discr").put("pl", place(cx, body, pl));
            let pty = pl.ty(body, tcx).ty;
            o = o.put_s("of_ty", cx.ty_str(pty));
            if let ty::Adt(adt, _) = pty.kind() {
                o = o.put_s("adt", cx.path(adt.did()));
                if adt.is_enum() {
                    let vs: Vec<J> = adt
                        .discriminants(tcx)
                        .map(|(vi, d)| {
                            J::Arr(vec![J::Int(d.val as i128), J::s(adt.variant(vi).name.to_string())])
                        })
                        .collect();
                    o = o.put("variants", J::Arr(vs));
                }
            }
            o.done()
        }
        Rvalue::Aggregate(ak, ops) => {
            let mut o = J::obj().put_s("k", "agg");
            match &**ak {
                AggregateKind::Array(t) => o = o.put_s("ak", "array").put_s("elem_ty", cx.ty_str(*t)),
                AggregateKind::Tuple => o = o.put_s("ak", "tuple"),
                AggregateKind::Adt(did, vidx, _, _, _) => {
                    let adt = tcx.adt_def(*did);
                    o = o.put_s("ak", "adt").put_s("adt", cx.path(*did));
                    if vidx.as_usize() < adt.variants().len() {
                        let v = adt.variant(*vidx);
                        o = o.put_s("variant", v.name.to_string());
                        o = o.put_i("vidx", vidx.as_usize() as i128);
                        o = o.put(
                            "fields",
                            J::Arr(v.fields.iter().map(|f| J::s(f.name.to_string())).collect()),
                        );
                    }
                }
                AggregateKind::Closure(did, _) => {
                    o = o.put_s("ak", "closure").put_s("fn", cx.path(*did)).put_b("fn_local", did.is_local())
                }
                AggregateKind::RawPtr(..) => o = o.put_s("ak", "rawptr"),
                _ => o = o.put_s("ak", "other"),
            }
            o = o.put("ops", J::Arr(ops.iter().map(|x| operand(cx, owner, body, x)).collect()));
            o.done()
        }
        Rvalue::CopyForDeref(pl) => {
            J::obj().put_s("k", "use").put("op", J::obj().put_s("k", "copy").put("pl", place(cx, body, pl)).done()).done()
        }
        Rvalue::WrapUnsafeBinder(op, _) => J::obj().put_s("k", "use").put("op", operand(cx, owner, body, op)).done(),
        #[allow(unreachable_patterns)]
        _ => J::obj().put_s("k", "other").done(),
    }
}
