//! Item-level facts: ADT definitions, statics, constants.

use crate::json::J;
use crate::Cx;
use rustc_hir::def::DefKind;
use rustc_middle::ty::{self, Ty, TypingEnv};

fn adts_in<'tcx>(cx: &Cx<'tcx>, t: Ty<'tcx>) -> J {
    let mut v: Vec<String> = Vec::new();
    for a in t.walk() {
        if let Some(t) = a.as_type() {
            if let ty::Adt(adt, _) = t.kind() {
                let p = cx.path(adt.did());
                if !v.contains(&p) {
                    v.push(p);
                }
            }
        }
    }
    J::Arr(v.into_iter().map(J::s).collect())
}

pub fn dump_adts<'tcx>(cx: &Cx<'tcx>) -> J {
    let tcx = cx.tcx;
    let mut out = Vec::new();
    for ldid in tcx.hir_crate_items(()).definitions() {
        let did = ldid.to_def_id();
        let kind = tcx.def_kind(did);
        if !matches!(kind, DefKind::Struct | DefKind::Enum | DefKind::Union) {
            continue;
        }
        let adt = tcx.adt_def(did);
        let self_ty = tcx.type_of(did).instantiate_identity().skip_norm_wip();
        let env = TypingEnv::post_analysis(tcx, did);
        let mut variants = Vec::new();
        for (vi, v) in adt.variants().iter_enumerated() {
            let fields: Vec<J> = v
                .fields
                .iter()
                .map(|f| {
                    let fty0 = tcx.type_of(f.did).instantiate_identity();
                    let fty = tcx
                        .try_normalize_erasing_regions(env, fty0)
                        .unwrap_or_else(|_| fty0.skip_norm_wip());
                    J::obj()
                        .put_s("name", f.name.to_string())
                        .put_s("ty", cx.ty_str(fty))
                        .put("adts", adts_in(cx, fty))
                        .put_b("freeze", fty.is_freeze(tcx, env))
                        .put_b("pub", f.vis.is_public())
                        .done()
                })
                .collect();
            let mut vo = J::obj().put_s("name", v.name.to_string()).put_i("idx", vi.as_usize() as i128);
            if adt.is_enum() {
                let d = adt.discriminant_for_variant(tcx, vi);
                vo = vo.put_i("discr", d.val as i128);
            }
            variants.push(vo.put("fields", J::Arr(fields)).done());
        }
        let span = tcx.def_span(did);
        out.push(
            J::obj()
                .put_s("path", cx.path(did))
                .put_s("kind", format!("{:?}", kind))
                .put_s("loc", cx.loc(span))
                .put_b("exp", span.from_expansion())
                .put_b("pub", tcx.visibility(did).is_public())
                .put_b("freeze", self_ty.is_freeze(tcx, env))
                .put("variants", J::Arr(variants))
                .done(),
        );
    }
    J::Arr(out)
}

pub fn dump_statics<'tcx>(cx: &Cx<'tcx>) -> J {
    let tcx = cx.tcx;
    let mut out = Vec::new();
    for ldid in tcx.hir_crate_items(()).definitions() {
        let did = ldid.to_def_id();
        if let DefKind::Static { mutability, nested, .. } = tcx.def_kind(did) {
            let t = tcx.type_of(did).instantiate_identity().skip_norm_wip();
            let env = TypingEnv::post_analysis(tcx, did);
            let span = tcx.def_span(did);
            out.push(
                J::obj()
                    .put_s("path", cx.path(did))
                    .put_s("ty", cx.ty_str(t))
                    .put("adts", adts_in(cx, t))
                    .put_b("mut", mutability.is_mut())
                    .put_b("nested", nested)
                    .put_b("freeze", t.is_freeze(tcx, env))
                    .put_b("thread_local", tcx.is_thread_local_static(did))
                    .put_s("loc", cx.loc(span))
                    .put_b("exp", span.from_expansion())
                    .done(),
            );
        }
    }
    J::Arr(out)
}

pub fn dump_consts<'tcx>(cx: &Cx<'tcx>) -> J {
    let tcx = cx.tcx;
    let mut out = Vec::new();
    for ldid in tcx.hir_crate_items(()).definitions() {
        let did = ldid.to_def_id();
        if !matches!(tcx.def_kind(did), DefKind::Const { .. } | DefKind::AssocConst { .. }) {
            continue;
        }
        // trait-declared associated consts without a body have no value
        if tcx.hir_maybe_body_owned_by(ldid).is_none() {
            continue;
        }
        let t = tcx.type_of(did).instantiate_identity().skip_norm_wip();
        let span = tcx.def_span(did);
        let mut o = J::obj()
            .put_s("path", cx.path(did))
            .put_s("ty", cx.ty_str(t))
            .put_s("loc", cx.loc(span))
            .put_b("exp", span.from_expansion());
        let generic = tcx.generics_of(did).requires_monomorphization(tcx);
        if !generic {
            if let Ok(v) = tcx.const_eval_poly(did) {
                o = crate::mir::value(cx, o, v, t);
            }
        }
        out.push(o.done());
    }
    J::Arr(out)
}
