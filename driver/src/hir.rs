//! HIR serialisation: the whole expression tree of every non-closure body owner,
//! with paths resolved through typeck results (closure bodies inline).

use crate::json::J;
use crate::Cx;
use rustc_hir as hir;
use rustc_hir::def::{DefKind, Res};
use rustc_middle::ty::TypeckResults;
use rustc_span::def_id::LocalDefId;

struct H<'a, 'tcx> {
    cx: &'a Cx<'tcx>,
    tr: &'tcx TypeckResults<'tcx>,
}

pub fn dump<'tcx>(cx: &Cx<'tcx>, ldid: LocalDefId) -> J {
    let tcx = cx.tcx;
    if tcx.def_kind(ldid.to_def_id()) == DefKind::Closure {
        return J::Null;
    }
    let Some(body) = tcx.hir_maybe_body_owned_by(ldid) else {
        return J::Null;
    };
    let tr = tcx.typeck(ldid);
    let h = H { cx, tr };
    let params: Vec<J> = body.params.iter().map(|p| h.pat(p.pat)).collect();
    J::obj().put("params", J::Arr(params)).put("body", h.expr(body.value)).done()
}

impl<'a, 'tcx> H<'a, 'tcx> {
    fn line(&self, sp: rustc_span::Span) -> i128 {
        let sp = sp.source_callsite();
        self.cx.tcx.sess.source_map().lookup_char_pos(sp.lo()).line as i128
    }

    fn res(&self, o: crate::json::Obj, qpath: &hir::QPath<'tcx>, id: hir::HirId) -> crate::json::Obj {
        match self.tr.qpath_res(qpath, id) {
            Res::Def(kind, did) => {
                let k = match kind {
                    DefKind::Ctor(of, _) => format!("ctor:{:?}", of),
                    other => format!("{:?}", other),
                };
                let mut o = o.put_s("path", self.cx.path(did)).put_s("rk", k);
                if let DefKind::Ctor(..) = kind {
                    // path of the variant / struct itself
                    if let Some(p) = self.cx.tcx.opt_parent(did) {
                        o = o.put_s("path", self.cx.path(p));
                    }
                }
                o
            }
            Res::Local(hid) => o
                .put_s("local", self.cx.tcx.hir_name(hid).to_string())
                .put_i("hid", hid.local_id.as_u32() as i128),
            Res::SelfCtor(_) => o.put_s("path", "Self").put_s("rk", "SelfCtor"),
            Res::SelfTyAlias { .. } | Res::SelfTyParam { .. } => o.put_s("path", "Self").put_s("rk", "SelfTy"),
            Res::PrimTy(_) => o.put_s("path", "<prim>").put_s("rk", "PrimTy"),
            _ => o.put_s("path", "<unresolved>"),
        }
    }

    fn lit(&self, o: crate::json::Obj, lit: &hir::Lit, negated: bool) -> crate::json::Obj {
        use rustc_ast::LitKind;
        match &lit.node {
            LitKind::Str(s, _) => o.put_s("lit", s.to_string()).put_s("lk", "str"),
            LitKind::Char(c) => o.put_s("lit", c.to_string()).put_s("lk", "char"),
            LitKind::Int(n, _) => {
                let v = n.get() as i128;
                o.put_i("lit", if negated { -v } else { v }).put_s("lk", "int")
            }
            LitKind::Bool(b) => o.put_b("lit", *b).put_s("lk", "bool"),
            LitKind::Byte(b) => o.put_i("lit", *b as i128).put_s("lk", "byte"),
            LitKind::Float(s, _) => o.put_s("lit", s.to_string()).put_s("lk", "float"),
            LitKind::ByteStr(b, _) => {
                let bytes = b.as_byte_str();
                match decode_fmt_template(bytes) {
                    Some(t) => o.put_s("lit", t).put_s("lk", "fmt"),
                    None => o.put_s("lit", String::from_utf8_lossy(bytes).into_owned()).put_s("lk", "bytes"),
                }
            }
            _ => o.put_s("lit", "<other>").put_s("lk", "other"),
        }
    }

    fn ty_of(&self, e: &hir::Expr<'tcx>) -> Option<String> {
        self.tr.expr_ty_opt(e).map(|t| self.cx.ty_str(t))
    }

    fn pat(&self, p: &hir::Pat<'tcx>) -> J {
        use hir::PatKind::*;
        let o = J::obj();
        match &p.kind {
            Wild => o.put_s("p", "wild").done(),
            Missing | Never => o.put_s("p", "never").done(),
            Binding(_, hid, ident, sub) => {
                let mut o = o
                    .put_s("p", "bind")
                    .put_s("name", ident.name.to_string())
                    .put_i("hid", hid.local_id.as_u32() as i128);
                if let Some(t) = self.tr.node_type_opt(p.hir_id) {
                    o = o.put_s("ty", self.cx.ty_str(t));
                }
                if let Some(s) = sub {
                    o = o.put("sub", self.pat(s));
                }
                o.done()
            }
            Struct(q, fields, _) => {
                let o = self.res(o.put_s("p", "struct"), q, p.hir_id);
                let fs: Vec<J> = fields
                    .iter()
                    .map(|f| J::Arr(vec![J::s(f.ident.name.to_string()), self.pat(f.pat)]))
                    .collect();
                o.put("fields", J::Arr(fs)).done()
            }
            TupleStruct(q, pats, _) => {
                let o = self.res(o.put_s("p", "ts"), q, p.hir_id);
                o.put("pats", J::Arr(pats.iter().map(|x| self.pat(x)).collect())).done()
            }
            Or(pats) => o.put_s("p", "or").put("pats", J::Arr(pats.iter().map(|x| self.pat(x)).collect())).done(),
            Tuple(pats, _) => o.put_s("p", "tup").put("pats", J::Arr(pats.iter().map(|x| self.pat(x)).collect())).done(),
            Box(x) | Deref(x) => self.pat(x),
            Ref(x, _, _) => o.put_s("p", "ref").put("sub", self.pat(x)).done(),
            Expr(pe) => self.pat_expr(pe),
            Guard(x, _) => self.pat(x),
            Range(lo, hi, end) => {
                let mut o = o.put_s("p", "range").put_s("end", format!("{:?}", end));
                if let Some(lo) = lo {
                    o = o.put("lo", self.pat_expr(lo));
                }
                if let Some(hi) = hi {
                    o = o.put("hi", self.pat_expr(hi));
                }
                o.done()
            }
            Slice(a, m, b) => {
                let mut o = o.put_s("p", "slice").put("before", J::Arr(a.iter().map(|x| self.pat(x)).collect()));
                if let Some(m) = m {
                    o = o.put("mid", self.pat(m));
                }
                o.put("after", J::Arr(b.iter().map(|x| self.pat(x)).collect())).done()
            }
            Err(_) => o.put_s("p", "err").done(),
        }
    }

    fn pat_expr(&self, pe: &hir::PatExpr<'tcx>) -> J {
        match &pe.kind {
            hir::PatExprKind::Lit { lit, negated } => self.lit(J::obj().put_s("p", "lit"), lit, *negated).done(),
            hir::PatExprKind::Path(q) => self.res(J::obj().put_s("p", "path"), q, pe.hir_id).done(),
        }
    }

    fn block(&self, b: &hir::Block<'tcx>) -> J {
        let mut stmts = Vec::new();
        for s in b.stmts {
            match &s.kind {
                hir::StmtKind::Let(l) => {
                    let mut o = J::obj().put_s("e", "let").put_i("ln", self.line(s.span)).put("pat", self.pat(l.pat));
                    if let Some(i) = l.init {
                        o = o.put("init", self.expr(i));
                    }
                    if let Some(els) = l.els {
                        o = o.put("else", self.block(els));
                    }
                    stmts.push(o.done());
                }
                hir::StmtKind::Expr(e) | hir::StmtKind::Semi(e) => stmts.push(self.expr(e)),
                hir::StmtKind::Item(_) => {}
            }
        }
        let mut o = J::obj()
            .put_s("e", "block")
            .put_b("unsafe", matches!(b.rules, hir::BlockCheckMode::UnsafeBlock(hir::UnsafeSource::UserProvided)))
            .put_i("ln", self.line(b.span))
            .put("stmts", J::Arr(stmts));
        if let Some(e) = b.expr {
            o = o.put("tail", self.expr(e));
        }
        o.done()
    }

    fn exprs(&self, es: &[hir::Expr<'tcx>]) -> J {
        J::Arr(es.iter().map(|x| self.expr(x)).collect())
    }

    fn expr(&self, e: &hir::Expr<'tcx>) -> J {
        use hir::ExprKind::*;
        let tcx = self.cx.tcx;
        let mut o = J::obj();
        let ln = self.line(e.span);
        let exp = e.span.from_expansion();
        let j = match &e.kind {
            Lit(l) => self.lit(o.put_s("e", "lit"), l, false),
            Path(q) => {
                o = self.res(o.put_s("e", "path"), q, e.hir_id);
                // fn item types are long and carry nothing the resolved path does not
                let is_fn = matches!(self.tr.expr_ty_opt(e).map(|t| t.kind()), Some(rustc_middle::ty::FnDef(..)));
                if !is_fn {
                    if let Some(t) = self.ty_of(e) {
                        o = o.put_s("ty", t);
                    }
                }
                o
            }
            Call(f, args) => {
                o = o.put_s("e", "call").put("f", self.expr(f)).put("args", self.exprs(args));
                if let Some(t) = self.ty_of(e) {
                    o = o.put_s("ty", t);
                }
                o
            }
            MethodCall(seg, recv, args, _) => {
                o = o.put_s("e", "mcall").put_s("name", seg.ident.name.to_string());
                if let Some(did) = self.tr.type_dependent_def_id(e.hir_id) {
                    o = o.put_s("def", self.cx.path(did));
                }
                if let Some(t) = self.ty_of(recv) {
                    o = o.put_s("rty", t);
                }
                if let Some(t) = self.ty_of(e) {
                    o = o.put_s("ty", t);
                }
                o.put("recv", self.expr(recv)).put("args", self.exprs(args))
            }
            Tup(es) => o.put_s("e", "tup").put("items", self.exprs(es)),
            Array(es) => o.put_s("e", "array").put("items", self.exprs(es)),
            Binary(op, a, b) => o
                .put_s("e", "binary")
                .put_s("op", format!("{:?}", op.node))
                .put("a", self.expr(a))
                .put("b", self.expr(b)),
            Unary(op, a) => o.put_s("e", "unary").put_s("op", format!("{:?}", op)).put("a", self.expr(a)),
            Cast(a, t) => o.put_s("e", "cast").put("a", self.expr(a)).put_s("to", self.cx.snippet(t.span)),
            Type(a, _) => return self.expr(a),
            DropTemps(a) => return self.expr(a),
            Use(a, _) => return self.expr(a),
            Let(l) => o.put_s("e", "letcond").put("pat", self.pat(l.pat)).put("init", self.expr(l.init)),
            If(c, t, f) => {
                o = o.put_s("e", "if").put("cond", self.expr(c)).put("then", self.expr(t));
                if let Some(f) = f {
                    o = o.put("else", self.expr(f));
                }
                o
            }
            Loop(b, _, src, _) => o.put_s("e", "loop").put_s("src", format!("{:?}", src)).put("body", self.block(b)),
            Match(scr, arms, src) => {
                o = o.put_s("e", "match").put_s("src", format!("{:?}", src));
                if let Some(t) = self.ty_of(scr) {
                    o = o.put_s("sty", t);
                }
                let arms: Vec<J> = arms
                    .iter()
                    .map(|a| {
                        let mut ao = J::obj().put_i("ln", self.line(a.span)).put("pat", self.pat(a.pat));
                        if let Some(g) = a.guard {
                            ao = ao.put("guard", self.expr(g));
                        }
                        ao.put("body", self.expr(a.body)).done()
                    })
                    .collect();
                o.put("scrut", self.expr(scr)).put("arms", J::Arr(arms))
            }
            Closure(c) => {
                let body = tcx.hir_body(c.body);
                o.put_s("e", "closure")
                    .put_s("def", self.cx.path(c.def_id.to_def_id()))
                    .put("params", J::Arr(body.params.iter().map(|p| self.pat(p.pat)).collect()))
                    .put("body", self.expr(body.value))
            }
            Block(b, _) => {
                return self.block(b);
            }
            Assign(l, r, _) => o.put_s("e", "assign").put("lhs", self.expr(l)).put("rhs", self.expr(r)),
            AssignOp(op, l, r) => o
                .put_s("e", "assignop")
                .put_s("op", format!("{:?}", op.node))
                .put("lhs", self.expr(l))
                .put("rhs", self.expr(r)),
            Field(a, id) => {
                o = o.put_s("e", "field").put_s("name", id.name.to_string());
                if let Some(t) = self.ty_of(a) {
                    o = o.put_s("of_ty", t);
                }
                if let Some(t) = self.ty_of(e) {
                    o = o.put_s("ty", t);
                }
                o.put("a", self.expr(a))
            }
            Index(a, i, _) => {
                o = o.put_s("e", "index");
                if let Some(t) = self.ty_of(a) {
                    o = o.put_s("of_ty", t);
                }
                o.put("a", self.expr(a)).put("i", self.expr(i))
            }
            AddrOf(_, m, a) => o.put_s("e", "addr").put_b("mut", m.is_mut()).put("a", self.expr(a)),
            Break(_, v) => {
                o = o.put_s("e", "break");
                if let Some(v) = v {
                    o = o.put("a", self.expr(v));
                }
                o
            }
            Continue(_) => o.put_s("e", "continue"),
            Ret(v) => {
                o = o.put_s("e", "ret");
                if let Some(v) = v {
                    o = o.put("a", self.expr(v));
                }
                o
            }
            Struct(q, fields, tail) => {
                o = self.res(o.put_s("e", "struct"), q, e.hir_id);
                let fs: Vec<J> = fields
                    .iter()
                    .map(|f| J::Arr(vec![J::s(f.ident.name.to_string()), self.expr(f.expr)]))
                    .collect();
                o = o.put("fields", J::Arr(fs));
                if let hir::StructTailExpr::Base(b) = tail {
                    o = o.put("base", self.expr(b));
                }
                o
            }
            Repeat(a, _) => o.put_s("e", "repeat").put("a", self.expr(a)),
            ConstBlock(_) => o.put_s("e", "constblock"),
            _ => {
                let mut s = self.cx.snippet(e.span);
                if s.len() > 120 {
                    s = s.chars().take(120).collect();
                }
                o.put_s("e", "other").put_s("src", s)
            }
        };
        let mut j = j.put_i("ln", ln);
        if exp {
            j = j.put_b("exp", true);
        }
        j.done()
    }
}


/// Decode the byte template of `core::fmt::Arguments::new` (length-prefixed literal pieces,
/// placeholder bytes with the two top bits set, terminated by 0) back into a `format!`-like
/// string with `{}` for every placeholder. Returns None if the bytes are not such a template.
fn decode_fmt_template(b: &[u8]) -> Option<String> {
    let mut out = String::new();
    let mut i = 0usize;
    loop {
        let c = *b.get(i)?;
        if c == 0 {
            return if i + 1 == b.len() { Some(out) } else { None };
        }
        if c & 0xC0 == 0xC0 {
            // placeholder: optional flags(4) width(2) precision(2) arg_index(2)
            let mut n = 1;
            if c & 0x01 != 0 {
                n += 4;
            }
            if c & 0x02 != 0 {
                n += 2;
            }
            if c & 0x04 != 0 {
                n += 2;
            }
            if c & 0x08 != 0 {
                n += 2;
            }
            out.push_str("{}");
            i += n;
            continue;
        }
        let (len, start) = if c == 0x80 {
            let lo = *b.get(i + 1)? as usize;
            let hi = *b.get(i + 2)? as usize;
            (lo | (hi << 8), i + 3)
        } else if c < 0x80 {
            (c as usize, i + 1)
        } else {
            return None;
        };
        let piece = b.get(start..start + len)?;
        out.push_str(std::str::from_utf8(piece).ok()?);
        i = start + len;
    }
}
