//! asca-facts: a rustc_private driver that serialises resolved-program facts
//! (HIR tables, MIR bodies with resolved callees, ADT layouts, statics, consts)
//! of the crate being compiled into one JSON file per compilation unit.
//!
//! It contains no rule; rules live in /verif/rules (python).
//!
//! Invocation: as RUSTC_WORKSPACE_WRAPPER under `cargo +nightly check`.
//!   argv[1] = path of the real rustc (used as argv0), rest = rustc args.
//! Environment:
//!   ASCA_FACTS_OUT   directory to write `<crate>-<lib|bin>[-test].facts.json` into
//!   ASCA_FACTS_NONCE copied into the fact file (freshness assertion)

#![feature(rustc_private)]

extern crate rustc_abi;
extern crate rustc_ast;
extern crate rustc_driver;
extern crate rustc_hir;
extern crate rustc_interface;
extern crate rustc_middle;
extern crate rustc_session;
extern crate rustc_span;

mod hir;
mod items;
mod json;
mod mir;

use json::J;
use rustc_driver::Compilation;
use rustc_interface::interface::Compiler;
use rustc_middle::ty::TyCtxt;
use rustc_span::def_id::DefId;

pub struct Cx<'tcx> {
    pub tcx: TyCtxt<'tcx>,
    pub krate: String,
}

impl<'tcx> Cx<'tcx> {
    /// Stable, definition-site path of an item: `<crate>::path::to::item`.
    pub fn path(&self, did: DefId) -> String {
        use rustc_middle::ty::print::{with_crate_prefix, with_no_trimmed_paths, with_no_visible_paths};
        let p = with_crate_prefix!(with_no_visible_paths!(with_no_trimmed_paths!(self.tcx.def_path_str(did))));
        let p = strip_generic_args(&p);
        self.canon(&p)
    }

    /// `crate::` (local items, printed with the crate prefix) becomes the unit's canonical crate
    /// name, so that the lib's items have the same path seen from the lib and from the bin.
    pub fn canon(&self, p: &str) -> String {
        p.replace("crate::", &format!("{}::", self.krate))
    }

    pub fn loc(&self, span: rustc_span::Span) -> String {
        let sp = span.source_callsite();
        let sm = self.tcx.sess.source_map();
        let lo = sm.lookup_char_pos(sp.lo());
        let name = match &lo.file.name {
            rustc_span::FileName::Real(r) => match r.local_path() {
                Some(p) => p.to_string_lossy().into_owned(),
                None => format!("{:?}", lo.file.name),
            },
            other => format!("{:?}", other),
        };
        format!("{}:{}:{}", name, lo.line, lo.col.0 + 1)
    }

    pub fn end_line(&self, span: rustc_span::Span) -> i128 {
        let sp = span.source_callsite();
        let sm = self.tcx.sess.source_map();
        sm.lookup_char_pos(sp.hi()).line as i128
    }

    pub fn snippet(&self, span: rustc_span::Span) -> String {
        self.tcx.sess.source_map().span_to_snippet(span).unwrap_or_default()
    }

    pub fn ty_str(&self, ty: rustc_middle::ty::Ty<'tcx>) -> String {
        use rustc_middle::ty::print::{with_crate_prefix, with_no_trimmed_paths, with_no_visible_paths};
        let s = with_crate_prefix!(with_no_visible_paths!(with_no_trimmed_paths!(ty.to_string())));
        self.canon(&s)
    }
}

/// Remove identity generic argument lists (`::<'a>`, `::<T, A>`) from a def path, keeping
/// qualified-self segments (`<X as Trait>`, `<impl Trait for X>`): paths become stable keys.
pub fn strip_generic_args(p: &str) -> String {
    let b: Vec<char> = p.chars().collect();
    let mut out = String::with_capacity(p.len());
    let mut i = 0;
    while i < b.len() {
        if b[i] == ':' && i + 2 < b.len() && b[i + 1] == ':' && b[i + 2] == '<' {
            // find the matching '>'
            let mut depth = 0i32;
            let mut j = i + 2;
            let mut end = None;
            while j < b.len() {
                match b[j] {
                    '<' => depth += 1,
                    '>' if j > 0 && b[j - 1] == '-' => {}
                    '>' => {
                        depth -= 1;
                        if depth == 0 {
                            end = Some(j);
                            break;
                        }
                    }
                    _ => {}
                }
                j += 1;
            }
            if let Some(e) = end {
                let inner: String = b[i + 3..e].iter().collect();
                if !inner.contains(" as ") && !inner.starts_with("impl ") {
                    i = e + 1;
                    continue;
                }
            }
        }
        out.push(b[i]);
        i += 1;
    }
    out
}

struct Cb;

impl rustc_driver::Callbacks for Cb {
    fn after_analysis<'tcx>(&mut self, _c: &Compiler, tcx: TyCtxt<'tcx>) -> Compilation {
        let Ok(out_dir) = std::env::var("ASCA_FACTS_OUT") else {
            return Compilation::Continue;
        };
        let nonce = std::env::var("ASCA_FACTS_NONCE").unwrap_or_default();
        let krate = tcx.crate_name(rustc_span::def_id::LOCAL_CRATE).to_string();
        let is_bin = tcx
            .crate_types()
            .iter()
            .any(|t| matches!(t, rustc_session::config::CrateType::Executable));
        let is_test = tcx.sess.opts.test;
        let unit = format!("{}{}", if is_bin { "bin" } else { "lib" }, if is_test { "-test" } else { "" });

        // the bin target has the same crate name as the lib: give its local paths a distinct prefix
        let prefix = if is_bin { format!("{}_bin", krate) } else { krate.clone() };
        let cx = Cx { tcx, krate: prefix };

        let mut bodies: Vec<J> = Vec::new();
        let mut n_bodies = 0i128;
        for ldid in tcx.hir_body_owners() {
            if let Some(b) = mir::dump_body(&cx, ldid) {
                bodies.push(b);
                n_bodies += 1;
            }
        }

        let top = J::obj()
            .put_s("unit", unit.clone())
            .put_s("crate", krate.clone())
            .put_s("nonce", nonce)
            .put_b("test", is_test)
            .put_i("n_bodies", n_bodies)
            .put("bodies", J::Arr(bodies))
            .put("adts", items::dump_adts(&cx))
            .put("statics", items::dump_statics(&cx))
            .put("consts", items::dump_consts(&cx))
            .done();

        let mut s = String::with_capacity(1 << 24);
        top.write(&mut s);
        let path = format!("{}/{}-{}.facts.json", out_dir, krate, unit);
        let tmp = format!("{}.tmp.{}", path, std::process::id());
        std::fs::write(&tmp, s).expect("asca-facts: cannot write fact file");
        std::fs::rename(&tmp, &path).expect("asca-facts: cannot rename fact file");
        Compilation::Continue
    }
}

fn main() {
    // RUSTC_WORKSPACE_WRAPPER passes the real rustc path as argv[1]; it serves as argv0.
    let args: Vec<String> = std::env::args().skip(1).collect();
    rustc_driver::run_compiler(&args, &mut Cb);
}
